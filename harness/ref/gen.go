package ref

import (
	"capnproto.org/go/capnp/v3/zverif/common"
)

// GenOpts steers the value generator.
type GenOpts struct {
	Caps      bool // may generate capability pointers
	MaxDepth  int  // pointer nesting
	Budget    int  // rough node budget
	BigStruct bool // allow very large sections (thorough)
	NoVoidBig bool // keep void-list counts small
	ZeroPadBits bool // bit lists: unused bits of the last byte are zero (always true; kept for clarity)
}

type gen struct {
	r      *common.RNG
	o      GenOpts
	budget int
	caps   uint32
}

// GenValue draws a random value tree whose root is a struct.
func GenValue(r *common.RNG, o GenOpts) *V {
	if o.MaxDepth == 0 {
		o.MaxDepth = 5
	}
	if o.Budget == 0 {
		o.Budget = 40
	}
	g := &gen{r: r, o: o, budget: o.Budget}
	return g.strct(0)
}

// GenAny draws a random value of any kind (for list elements / Equal pairs).
func GenAny(r *common.RNG, o GenOpts) *V {
	if o.MaxDepth == 0 {
		o.MaxDepth = 4
	}
	if o.Budget == 0 {
		o.Budget = 25
	}
	g := &gen{r: r, o: o, budget: o.Budget}
	return g.any(0)
}

func (g *gen) smallN() int {
	return g.r.PickInt(0, 0, 1, 1, 2, 3, 7, 8, 9, 15, 16, 17)
}

func (g *gen) dataBytes(n int) []byte {
	b := g.r.Bytes(n)
	switch g.r.Intn(6) {
	case 0:
		for i := range b {
			b[i] = 0
		}
	case 1:
		for i := range b {
			b[i] = 0xff
		}
	case 2:
		// sparse
		for i := range b {
			if !g.r.Chance(1, 5) {
				b[i] = 0
			}
		}
	case 3:
		// zero tail (interesting for truncation rules)
		cut := 0
		if n > 0 {
			cut = g.r.Intn(n + 1)
		}
		for i := cut; i < n; i++ {
			b[i] = 0
		}
	}
	return b[:n]
}

func (g *gen) strct(depth int) *V {
	g.budget--
	var dw, pw int
	switch g.r.Intn(10) {
	case 0:
		dw, pw = 0, 0
	case 1:
		dw, pw = g.r.Range(0, 3), 0
	case 2:
		dw, pw = 0, g.r.Range(1, 3)
	default:
		dw, pw = g.r.Range(0, 4), g.r.Range(0, 4)
	}
	if g.o.BigStruct && g.r.Chance(1, 200) {
		dw = g.r.PickInt(255, 256, 4095, 0xffff)
	}
	v := NewStruct(dw, pw)
	copy(v.Data, g.dataBytes(dw*8))
	for i := range v.Ptrs {
		v.Ptrs[i] = g.any(depth + 1)
	}
	return v
}

func (g *gen) any(depth int) *V {
	if g.budget <= 0 || depth >= g.o.MaxDepth {
		// leaves only
		switch g.r.Intn(5) {
		case 0:
			return Null
		case 1:
			return g.dataList()
		case 2:
			if g.o.Caps {
				return g.cap()
			}
			return Null
		case 3:
			return NewStruct(g.r.Range(0, 2), 0).fill(g)
		default:
			return Null
		}
	}
	switch g.r.Intn(12) {
	case 0, 1:
		return Null
	case 2, 3, 4:
		return g.strct(depth)
	case 5, 6:
		return g.dataList()
	case 7:
		return g.ptrList(depth)
	case 8, 9:
		return g.composite(depth)
	case 10:
		if g.o.Caps {
			return g.cap()
		}
		return g.text()
	default:
		return g.text()
	}
}

func (v *V) fill(g *gen) *V {
	copy(v.Data, g.dataBytes(len(v.Data)))
	return v
}

func (g *gen) cap() *V {
	g.budget--
	return NewCap(uint32(g.r.Intn(4)))
}

func (g *gen) text() *V {
	g.budget--
	n := g.smallN()
	b := g.r.Bytes(n)
	for i := range b {
		if b[i] == 0 && g.r.Chance(3, 4) {
			b[i] = 'a'
		}
	}
	return NewText(string(b))
}

func (g *gen) dataList() *V {
	g.budget--
	et := g.r.PickInt(ETVoid, ETBit, ETBit, ETByte1, ETByte1, ETByte2, ETByte4, ETByte8)
	n := g.smallN()
	if g.r.Chance(1, 30) {
		n = g.r.PickInt(63, 64, 65, 255, 256, 257, 1023)
	}
	switch et {
	case ETVoid:
		if !g.o.NoVoidBig && g.r.Chance(1, 10) {
			n = g.r.PickInt(1<<10, 1<<16, 1<<20)
		}
		return &V{Kind: KList, ET: ETVoid, N: n}
	case ETBit:
		b := g.dataBytes((n + 7) / 8)
		if n%8 != 0 {
			b[len(b)-1] &= byte(1<<uint(n%8)) - 1 // zero padding bits
		}
		return &V{Kind: KList, ET: ETBit, N: n, Data: b}
	default:
		return &V{Kind: KList, ET: et, N: n, Data: g.dataBytes(n * ElemBytes(et))}
	}
}

func (g *gen) ptrList(depth int) *V {
	g.budget--
	n := g.r.PickInt(0, 1, 2, 3, 5)
	el := make([]*V, n)
	for i := range el {
		el[i] = g.any(depth + 1)
	}
	return NewPtrList(el)
}

func (g *gen) composite(depth int) *V {
	g.budget--
	n := g.r.PickInt(0, 1, 2, 3, 4, 7)
	var dw, pw int
	switch g.r.Intn(6) {
	case 0:
		dw, pw = 0, 0
	case 1:
		dw, pw = g.r.Range(1, 3), 0 // data-only struct list
	case 2:
		dw, pw = 0, g.r.Range(1, 2)
	default:
		dw, pw = g.r.Range(0, 3), g.r.Range(0, 3)
	}
	el := make([]*V, n)
	for i := range el {
		e := NewStruct(dw, pw)
		copy(e.Data, g.dataBytes(dw*8))
		for j := range e.Ptrs {
			e.Ptrs[j] = g.any(depth + 1)
		}
		el[i] = e
	}
	return NewComposite(dw, pw, el)
}

// ---------------------------------------------------------------------------
// Value-preserving physical transformations ("another encoding of the same
// value"): struct sections longer (zero extended) or shorter (trailing zero
// words / null pointers dropped) than the original, data/pointer lists
// upgraded to struct lists.

// Relayout returns a tree that denotes the same value as v under the
// documented equality of capnp.Equal, with different physical section sizes.
// upgrade additionally allows primitive→struct list upgrades.
func Relayout(r *common.RNG, v *V, upgrade bool) *V {
	switch v.Kind {
	case KNull:
		return Null
	case KCap:
		return NewCap(v.Cap)
	case KStruct:
		return relayoutStruct(r, v, upgrade)
	}
	switch v.ET {
	case ETPtr:
		if upgrade && r.Chance(1, 4) {
			// pointer list → struct list with the pointer as field 0
			dw, pw := r.Range(0, 2), r.Range(1, 2)
			el := make([]*V, v.N)
			for i := range el {
				e := NewStruct(dw, pw)
				e.Ptrs[0] = Relayout(r, v.Ptrs[i], upgrade)
				el[i] = e
			}
			return NewComposite(dw, pw, el)
		}
		el := make([]*V, v.N)
		for i := range el {
			el[i] = Relayout(r, v.Ptrs[i], upgrade)
		}
		return NewPtrList(el)
	case ETComposite:
		// Change the element size consistently: grow, or shrink by words
		// that are zero / null in *every* element.
		minDW, minPW := 0, 0
		for _, e := range v.Elems {
			d, p := trimmedSize(e)
			if d > minDW {
				minDW = d
			}
			if p > minPW {
				minPW = p
			}
		}
		dw, pw := v.ElemDW, v.ElemPW
		switch r.Intn(3) {
		case 0:
			dw, pw = minDW+r.Intn(2), minPW+r.Intn(2)
		case 1:
			dw, pw = dw+r.Intn(3), pw+r.Intn(3)
		}
		el := make([]*V, v.N)
		for i, e := range v.Elems {
			el[i] = resize(r, e, dw, pw, upgrade)
		}
		return NewComposite(dw, pw, el)
	case ETByte1, ETByte2, ETByte4, ETByte8:
		if upgrade && r.Chance(1, 4) {
			sz := ElemBytes(v.ET)
			dw, pw := r.Range(1, 2), r.Range(0, 1)
			el := make([]*V, v.N)
			for i := range el {
				e := NewStruct(dw, pw)
				copy(e.Data, v.Data[i*sz:(i+1)*sz])
				el[i] = e
			}
			return NewComposite(dw, pw, el)
		}
		return v.Clone()
	case ETVoid:
		if upgrade && v.N <= 64 && r.Chance(1, 4) {
			dw, pw := r.Range(0, 1), r.Range(0, 1)
			el := make([]*V, v.N)
			for i := range el {
				el[i] = NewStruct(dw, pw)
			}
			return NewComposite(dw, pw, el)
		}
		return v.Clone()
	}
	return v.Clone()
}

func trimmedSize(s *V) (dw, pw int) {
	dw = len(s.Data) / 8
	for dw > 0 && isZero(s.Data[(dw-1)*8:dw*8]) {
		dw--
	}
	pw = len(s.Ptrs)
	for pw > 0 && s.Ptrs[pw-1].Kind == KNull {
		pw--
	}
	return
}

func relayoutStruct(r *common.RNG, v *V, upgrade bool) *V {
	mdw, mpw := trimmedSize(v)
	dw, pw := len(v.Data)/8, len(v.Ptrs)
	switch r.Intn(4) {
	case 0:
		dw, pw = mdw, mpw // canonical truncation
	case 1:
		dw, pw = mdw+r.Intn(3), mpw+r.Intn(3)
	case 2:
		dw, pw = dw+r.Intn(3), pw+r.Intn(3)
	}
	return resize(r, v, dw, pw, upgrade)
}

// resize returns a copy of struct s with the given section sizes (which must
// not cut off non-zero content) and relayouted children.
func resize(r *common.RNG, s *V, dw, pw int, upgrade bool) *V {
	// section sizes are 16-bit fields of the pointer word
	if dw > 0xffff {
		dw = 0xffff
	}
	if pw > 0xffff {
		pw = 0xffff
	}
	n := NewStruct(dw, pw)
	copy(n.Data, s.Data)
	for i := 0; i < pw && i < len(s.Ptrs); i++ {
		n.Ptrs[i] = Relayout(r, s.Ptrs[i], upgrade)
	}
	return n
}

// MutateLeaf returns a copy of v that differs from it in exactly one leaf
// (one data bit, one list length, one null-vs-nonnull pointer, one element
// type), i.e. a value that is *not* equal to v.  It returns nil if it could
// not find a place to mutate.
func MutateLeaf(r *common.RNG, v *V) (*V, string) {
	c := v.Clone()
	// collect mutable nodes
	var nodes []*V
	var walk func(x *V)
	walk = func(x *V) {
		if x.Kind == KNull {
			return
		}
		nodes = append(nodes, x)
		for _, p := range x.Ptrs {
			walk(p)
		}
		for _, p := range x.Elems {
			walk(p)
		}
	}
	walk(c)
	for try := 0; try < 20 && len(nodes) > 0; try++ {
		x := nodes[r.Intn(len(nodes))]
		switch x.Kind {
		case KStruct:
			if len(x.Data) > 0 && r.Bool() {
				i := r.Intn(len(x.Data) * 8)
				x.Data[i/8] ^= 1 << uint(i%8)
				return c, "struct-data-bit"
			}
			for i, p := range x.Ptrs {
				if p.Kind == KNull {
					x.Ptrs[i] = NewStruct(1, 0)
					x.Ptrs[i].Data[0] = 1
					return c, "null-to-struct"
				}
			}
		case KCap:
			x.Cap ^= 1
			return c, "cap-index"
		case KList:
			switch x.ET {
			case ETBit:
				if x.N > 0 {
					i := r.Intn(x.N)
					x.Data[i/8] ^= 1 << uint(i%8)
					return c, "bitlist-bit"
				}
			case ETByte1, ETByte2, ETByte4, ETByte8:
				if x.N > 0 {
					i := r.Intn(len(x.Data) * 8)
					x.Data[i/8] ^= 1 << uint(i%8)
					return c, "datalist-bit"
				}
			case ETVoid:
				x.N++
				return c, "voidlist-len"
			case ETPtr:
				if x.N > 0 {
					i := r.Intn(x.N)
					if x.Ptrs[i].Kind == KNull {
						x.Ptrs[i] = NewText("x")
					} else {
						x.Ptrs[i] = Null
					}
					return c, "ptrlist-elem"
				}
			}
		}
	}
	return nil, ""
}
