package common

import (
	"fmt"
	"os"
	"regexp"
	"runtime"
	"sort"
	"strings"
	"sync/atomic"
	"time"
)

// Quiescence-based deadlock detection (DESIGN.md §1.4).
//
// The verdict "deadlock" is logical, not a stopwatch: it requires K
// consecutive samples in which (i) the progress counter did not move,
// (ii) at least one operation is pending and (iii) every goroutine other
// than the sampler is parked in a state that only another goroutine can end
// (mutex, channel, select, cond, waitgroup, semaphore).  In a closed system
// (no network, no timers longer than the sample period left to fire) that
// state cannot make progress any more.  If goroutines are still runnable /
// sleeping / in syscalls when the generous wall-clock limit fires, the
// verdict is *inconclusive*.

type GoroutineInfo struct {
	ID     string
	State  string
	Frames []string // function names, innermost first
	Raw    string
}

var goHdr = regexp.MustCompile(`^goroutine (\d+) \[([^\]]+)\]:`)

// Goroutines parses runtime.Stack(all).
func Goroutines() []GoroutineInfo {
	buf := make([]byte, 1<<20)
	for {
		n := runtime.Stack(buf, true)
		if n < len(buf) {
			buf = buf[:n]
			break
		}
		buf = make([]byte, 2*len(buf))
	}
	return ParseGoroutines(string(buf))
}

func ParseGoroutines(dump string) []GoroutineInfo {
	var out []GoroutineInfo
	for _, blk := range strings.Split(dump, "\n\n") {
		blk = strings.TrimSpace(blk)
		if blk == "" {
			continue
		}
		lines := strings.Split(blk, "\n")
		m := goHdr.FindStringSubmatch(lines[0])
		if m == nil {
			continue
		}
		st := m[2]
		if i := strings.Index(st, ","); i >= 0 {
			st = st[:i]
		}
		g := GoroutineInfo{ID: m[1], State: st, Raw: blk}
		for _, l := range lines[1:] {
			if strings.HasPrefix(l, "\t") || strings.HasPrefix(l, "created by ") {
				continue
			}
			name := l
			if i := strings.LastIndex(name, "("); i >= 0 {
				name = name[:i]
			}
			g.Frames = append(g.Frames, name)
		}
		out = append(out, g)
	}
	return out
}

// parkedStates are the wait reasons that only another goroutine can end.
var parkedStates = map[string]bool{
	"chan receive": true, "chan send": true, "select": true, "select (no cases)": true,
	"chan receive (nil chan)": true, "chan send (nil chan)": true,
	"semacquire": true, "sync.Mutex.Lock": true, "sync.RWMutex.Lock": true, "sync.RWMutex.RLock": true,
	"sync.Cond.Wait": true, "sync.WaitGroup.Wait": true,
}

// systemGoroutine reports goroutines of the runtime that are always parked.
func systemGoroutine(g GoroutineInfo) bool {
	for _, f := range g.Frames {
		if strings.HasPrefix(f, "runtime.gcBgMarkWorker") || strings.HasPrefix(f, "runtime.bgsweep") ||
			strings.HasPrefix(f, "runtime.bgscavenge") || strings.HasPrefix(f, "runtime.forcegchelper") ||
			strings.HasPrefix(f, "runtime.runfinq") || strings.HasPrefix(f, "os/signal.") ||
			strings.HasPrefix(f, "runtime.ensureSigM") || strings.HasPrefix(f, "runtime.ReadTrace") {
			return true
		}
	}
	return false
}

// Watch observes a closed system for deadlock.
type Watch struct {
	Progress *int64      // operations completed so far (atomic)
	Pending  func() int  // operations issued and not completed
	Interval time.Duration
	K        int
	Self     string // a frame name identifying the sampler goroutine itself
}

type DeadlockReport struct {
	Deadlock  bool
	Signature string   // sorted set of innermost library frames of the parked goroutines
	Blocked   []string // raw stacks of parked goroutines that have a library frame
	Dump      string
}

// IsLib reports whether a function name belongs to the library under test.
func IsLib(fn string) bool {
	return strings.Contains(fn, "capnproto.org/go/capnp/v3") && !strings.Contains(fn, "/zverif")
}

func shortLib(fn string) string {
	fn = strings.TrimPrefix(fn, "capnproto.org/go/capnp/v3")
	fn = strings.TrimPrefix(fn, "/")
	fn = strings.TrimPrefix(fn, ".")
	return fn
}

// quiescent reports whether all non-system goroutines except the caller are
// parked, and returns them.
func quiescent(self string) (bool, []GoroutineInfo) {
	gs := Goroutines()
	var parked []GoroutineInfo
	for _, g := range gs {
		if g.State == "running" {
			// Only the sampler itself may be running.
			isSelf := false
			for _, f := range g.Frames {
				if strings.Contains(f, "common.quiescent") || strings.Contains(f, "common.Goroutines") {
					isSelf = true
				}
			}
			if isSelf {
				continue
			}
			return false, nil
		}
		if systemGoroutine(g) {
			continue
		}
		if !parkedStates[g.State] {
			return false, nil
		}
		parked = append(parked, g)
	}
	return true, parked
}

// WaitDone waits until done() is true or a deadlock / wall-clock limit is
// observed.  It returns (nil, false) when done, (report, false) on deadlock,
// (nil, true) when the wall limit fired while goroutines could still run
// (inconclusive).
func (w *Watch) WaitDone(done func() bool, wall time.Duration) (*DeadlockReport, bool) {
	iv := w.Interval
	if iv == 0 {
		iv = 200 * time.Millisecond
	}
	k := w.K
	if k == 0 {
		k = 5
	}
	deadline := time.Now().Add(wall)
	var last int64 = -1
	streak := 0
	step := 2 * time.Millisecond
	waited := time.Duration(0)
	for {
		if done() {
			return nil, false
		}
		time.Sleep(step)
		waited += step
		if step < iv/4 {
			step *= 2
		}
		if waited < iv {
			continue
		}
		waited = 0
		p := atomic.LoadInt64(w.Progress)
		pend := 1
		if w.Pending != nil {
			pend = w.Pending()
		}
		if done() {
			return nil, false
		}
		if p != last || pend == 0 {
			last = p
			streak = 0
		} else {
			q, parked := quiescent(w.Self)
			if q && atomic.LoadInt64(w.Progress) == p && !done() {
				streak++
				if streak >= k {
					return buildReport(parked), false
				}
			} else {
				streak = 0
			}
		}
		if time.Now().After(deadline) {
			return nil, true
		}
	}
}

func buildReport(parked []GoroutineInfo) *DeadlockReport {
	r := &DeadlockReport{Deadlock: true}
	sigset := map[string]bool{}
	for _, g := range parked {
		var inner string
		for _, f := range g.Frames {
			if IsLib(f) {
				inner = shortLib(f)
				break
			}
		}
		if inner == "" {
			continue
		}
		sigset[g.State+"@"+inner] = true
		r.Blocked = append(r.Blocked, g.Raw)
	}
	var sig []string
	for s := range sigset {
		sig = append(sig, s)
	}
	sort.Strings(sig)
	r.Signature = strings.Join(sig, ",")
	var sb strings.Builder
	for _, g := range parked {
		sb.WriteString(g.Raw)
		sb.WriteString("\n\n")
	}
	r.Dump = sb.String()
	return r
}

// LibGoroutines returns goroutines that have a frame inside the given
// library package prefix (e.g. "capnproto.org/go/capnp/v3/rpc."), excluding
// ones that also have a frame matching any of the exclude substrings.
func LibGoroutines(prefix string, exclude ...string) []GoroutineInfo {
	var out []GoroutineInfo
	for _, g := range Goroutines() {
		has := false
		ex := false
		for _, f := range g.Frames {
			if strings.HasPrefix(f, prefix) {
				has = true
			}
			for _, e := range exclude {
				if strings.Contains(f, e) {
					ex = true
				}
			}
		}
		if has && !ex {
			out = append(out, g)
		}
	}
	return out
}

// AbortBatch is used after a deadlock was recorded: the process is wedged, so
// the driver finishes its result file (with NextIndex set) and exits with
// status 10; the orchestrator resumes the batch at NextIndex.
func (rc *Recorder) AbortBatch(next uint64) {
	rc.mu.Lock()
	rc.res.Counters["aborted_batches"]++
	rc.mu.Unlock()
	rc.finishWithNext(next)
	fmt.Fprintf(os.Stderr, "ABORT-BATCH next=%d\n", next)
	os.Exit(10)
}
