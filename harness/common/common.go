// Package common holds the plumbing shared by every verification driver:
// seeded PRNG, case logging (so a process-fatal event is attributable), a
// thread-safe recorder for counters / distinct hashes / samples / violations,
// and the JSON result file the orchestrator (/verif/check) merges.
//
// Go 1.16 language level (no generics): the harness is compiled inside a
// scratch copy of the capnp module.
package common

import (
	"encoding/binary"
	"encoding/json"
	"flag"
	"fmt"
	"hash/fnv"
	"io/ioutil"
	"os"
	"runtime/debug"
	"sort"
	"strings"
	"sync"
)

// ---------------------------------------------------------------------------
// PRNG: splitmix64.  Deterministic, seedable, cheap, no global state.

type RNG struct{ s uint64 }

func NewRNG(seed uint64) *RNG { return &RNG{s: seed} }

func (r *RNG) Uint64() uint64 {
	r.s += 0x9e3779b97f4a7c15
	z := r.s
	z = (z ^ (z >> 30)) * 0xbf58476d1ce4e5b9
	z = (z ^ (z >> 27)) * 0x94d049bb133111eb
	return z ^ (z >> 31)
}

// Intn returns a value in [0,n).  n must be > 0.
func (r *RNG) Intn(n int) int {
	if n <= 0 {
		panic("Intn: n <= 0")
	}
	return int(r.Uint64() % uint64(n))
}

// Range returns a value in [lo,hi] inclusive.
func (r *RNG) Range(lo, hi int) int {
	if hi < lo {
		lo, hi = hi, lo
	}
	return lo + r.Intn(hi-lo+1)
}

func (r *RNG) Bool() bool { return r.Uint64()&1 == 1 }

// Chance returns true with probability num/den.
func (r *RNG) Chance(num, den int) bool { return r.Intn(den) < num }

func (r *RNG) Bytes(n int) []byte {
	b := make([]byte, n)
	for i := 0; i < n; i += 8 {
		var w [8]byte
		binary.LittleEndian.PutUint64(w[:], r.Uint64())
		copy(b[i:], w[:])
	}
	return b
}

// PickInt returns one of the given values.
func (r *RNG) PickInt(vals ...int) int { return vals[r.Intn(len(vals))] }

// PickU64 returns one of the given values.
func (r *RNG) PickU64(vals ...uint64) uint64 { return vals[r.Intn(len(vals))] }

// Fork derives an independent generator.
func (r *RNG) Fork() *RNG { return NewRNG(r.Uint64()) }

// CaseSeed derives the seed of case idx of property prop under master seed.
func CaseSeed(master uint64, prop string, idx uint64) uint64 {
	h := fnv.New64a()
	h.Write([]byte(prop))
	r := NewRNG(master ^ h.Sum64())
	r.s += idx * 0xd1342543de82ef95
	return r.Uint64()
}

// Hash64 hashes arbitrary byte strings (used for distinct-case counting).
func Hash64(parts ...[]byte) uint64 {
	h := fnv.New64a()
	for _, p := range parts {
		var l [4]byte
		binary.LittleEndian.PutUint32(l[:], uint32(len(p)))
		h.Write(l[:])
		h.Write(p)
	}
	return h.Sum64()
}

func HashString(s string) uint64 { return Hash64([]byte(s)) }

// ---------------------------------------------------------------------------
// Config: the CLI contract between /verif/check and every driver.

type Config struct {
	Prop   string // property id, e.g. C03
	Mode   string // driver-specific sub-workload name
	Seed   uint64 // master seed (VERIF_SEED)
	Start  uint64 // first case index of this batch
	Count  uint64 // number of cases in this batch
	Tier   string // quick | thorough
	Out    string // result JSON path
	Replay string // replay file (optional)
	Extra  string // free-form driver argument
}

func ParseFlags() *Config {
	c := &Config{}
	flag.StringVar(&c.Prop, "prop", "", "property id")
	flag.StringVar(&c.Mode, "mode", "", "sub-workload")
	flag.Uint64Var(&c.Seed, "seed", 1, "master seed")
	flag.Uint64Var(&c.Start, "start", 0, "first case index")
	flag.Uint64Var(&c.Count, "count", 1, "number of cases")
	flag.StringVar(&c.Tier, "tier", "quick", "quick|thorough")
	flag.StringVar(&c.Out, "out", "", "result json path")
	flag.StringVar(&c.Replay, "replay", "", "replay file")
	flag.StringVar(&c.Extra, "extra", "", "driver-specific argument")
	flag.Parse()
	return c
}

// ---------------------------------------------------------------------------
// Recorder

// Violation is one observed refutation of a property.
type Violation struct {
	Property  string      `json:"property"`
	Signature string      `json:"signature"` // stable: oracle/entry-point/input-class
	What      string      `json:"what"`      // one-line human description
	Mode      string      `json:"mode"`
	Seed      uint64      `json:"seed"`
	Index     uint64      `json:"index"`
	Detail    string      `json:"detail,omitempty"` // stack, diff, …
	Input     interface{} `json:"input,omitempty"`  // enough to reproduce without the generator
}

// Result is what a driver child writes; the orchestrator merges many of them.
type Result struct {
	Property     string           `json:"property"`
	Mode         string           `json:"mode"`
	Seed         uint64           `json:"seed"`
	Start        uint64           `json:"start"`
	Count        uint64           `json:"count"`
	Evaluations  int64            `json:"evaluations"`
	Counters     map[string]int64 `json:"counters"`
	Hashes       []string         `json:"hashes"` // hex, distinct non-trivial case hashes
	Samples      []interface{}    `json:"samples"`
	Violations   []Violation      `json:"violations"`
	Inconclusive []string         `json:"inconclusive"`
	Completed    bool             `json:"completed"`
	NextIndex    uint64           `json:"next_index"` // == start+count unless the batch was aborted
}

type Recorder struct {
	mu      sync.Mutex
	cfg     *Config
	res     Result
	hashes  map[uint64]struct{}
	maxSamp int
	maxViol int
	vsigs   map[string]int
	cur     uint64
}

func NewRecorder(cfg *Config) *Recorder {
	return &Recorder{
		cfg: cfg,
		res: Result{Property: cfg.Prop, Mode: cfg.Mode, Seed: cfg.Seed, Start: cfg.Start, Count: cfg.Count,
			Counters: map[string]int64{}},
		hashes:  map[uint64]struct{}{},
		maxSamp: 4,
		maxViol: 40,
		vsigs:   map[string]int{},
	}
}

// Case must be called before a case is executed.  The line reaches the log
// file before the library is entered, so a process-fatal event is attributed
// to the last CASE line.
func (rc *Recorder) Case(idx uint64, desc string) {
	rc.mu.Lock()
	rc.cur = idx
	rc.res.Evaluations++
	rc.mu.Unlock()
	fmt.Fprintf(os.Stderr, "CASE prop=%s mode=%s seed=%d index=%d %s\n", rc.cfg.Prop, rc.cfg.Mode, rc.cfg.Seed, idx, desc)
}

// CaseQuiet counts a case without writing a log line (for very cheap cases
// executed in bulk; the caller logs one line per block instead).
func (rc *Recorder) CaseQuiet(idx uint64) {
	rc.mu.Lock()
	rc.cur = idx
	rc.res.Evaluations++
	rc.mu.Unlock()
}

func (rc *Recorder) Logf(format string, args ...interface{}) {
	fmt.Fprintf(os.Stderr, format+"\n", args...)
}

func (rc *Recorder) Count(name string, n int64) {
	rc.mu.Lock()
	rc.res.Counters[name] += n
	rc.mu.Unlock()
}

// Max keeps the maximum of a counter.
func (rc *Recorder) Max(name string, n int64) {
	rc.mu.Lock()
	if n > rc.res.Counters[name] {
		rc.res.Counters[name] = n
	}
	rc.mu.Unlock()
}

// Distinct records the hash of a non-trivial case.
func (rc *Recorder) Distinct(h uint64) {
	rc.mu.Lock()
	rc.hashes[h] = struct{}{}
	rc.mu.Unlock()
}

func (rc *Recorder) Sample(x interface{}) {
	rc.mu.Lock()
	if len(rc.res.Samples) < rc.maxSamp {
		rc.res.Samples = append(rc.res.Samples, x)
	}
	rc.mu.Unlock()
}

func (rc *Recorder) WantSample() bool {
	rc.mu.Lock()
	defer rc.mu.Unlock()
	return len(rc.res.Samples) < rc.maxSamp
}

// Violate records a violation.  At most 3 per signature and maxViol overall
// are kept (the rest only counted).
func (rc *Recorder) Violate(sig, what string, idx uint64, detail string, input interface{}) {
	rc.mu.Lock()
	defer rc.mu.Unlock()
	rc.res.Counters["violations_total"]++
	rc.vsigs[sig]++
	if rc.vsigs[sig] > 3 || len(rc.res.Violations) >= rc.maxViol {
		return
	}
	if len(detail) > 6000 {
		detail = detail[:6000] + "…"
	}
	rc.res.Violations = append(rc.res.Violations, Violation{
		Property: rc.cfg.Prop, Signature: sig, What: what, Mode: rc.cfg.Mode,
		Seed: rc.cfg.Seed, Index: idx, Detail: detail, Input: input,
	})
	fmt.Fprintf(os.Stderr, "VIOL sig=%s index=%d %s\n", sig, idx, what)
}

func (rc *Recorder) Inconclusive(reason string) {
	rc.mu.Lock()
	rc.res.Inconclusive = append(rc.res.Inconclusive, reason)
	rc.mu.Unlock()
	fmt.Fprintf(os.Stderr, "INCONCLUSIVE %s\n", reason)
}

func (rc *Recorder) NumViolations() int {
	rc.mu.Lock()
	defer rc.mu.Unlock()
	return int(rc.res.Counters["violations_total"])
}

// Finish writes the result file.  A child that dies before Finish leaves no
// (or an incomplete) file, which the orchestrator treats as process death.
func (rc *Recorder) Finish() { rc.finishWithNext(rc.cfg.Start + rc.cfg.Count) }

func (rc *Recorder) finishWithNext(next uint64) {
	rc.mu.Lock()
	defer rc.mu.Unlock()
	rc.res.Completed = true
	rc.res.NextIndex = next
	hs := make([]string, 0, len(rc.hashes))
	for h := range rc.hashes {
		hs = append(hs, fmt.Sprintf("%016x", h))
	}
	sort.Strings(hs)
	rc.res.Hashes = hs
	b, err := json.Marshal(&rc.res)
	if err != nil {
		fmt.Fprintf(os.Stderr, "result marshal: %v\n", err)
		os.Exit(3)
	}
	if rc.cfg.Out == "" {
		os.Stdout.Write(b)
		os.Stdout.Write([]byte("\n"))
		return
	}
	if err := ioutil.WriteFile(rc.cfg.Out+".tmp", b, 0644); err != nil {
		fmt.Fprintf(os.Stderr, "result write: %v\n", err)
		os.Exit(3)
	}
	os.Rename(rc.cfg.Out+".tmp", rc.cfg.Out)
}

// ---------------------------------------------------------------------------
// Guard: recover() wrapper.  Returns a non-empty description if f panicked.

type Panic struct {
	Value string
	Stack string
}

// Guard runs f and converts a panic into a value.  Process-fatal runtime
// errors (stack overflow, concurrent map writes, checkptr) are *not*
// recoverable; they are attributed through the CASE log instead.
func Guard(f func()) (p *Panic) {
	defer func() {
		if r := recover(); r != nil {
			p = &Panic{Value: fmt.Sprint(r), Stack: string(debug.Stack())}
		}
	}()
	f()
	return nil
}

// TopLibFrame extracts the innermost frame of the capnp module (not the
// harness, not the runtime) from a debug.Stack() dump: "pkg.Func".  Used to
// build stable violation signatures.
func TopLibFrame(stack string) string {
	lines := strings.Split(stack, "\n")
	for _, l := range lines {
		if strings.HasPrefix(l, "\t") || l == "" {
			continue
		}
		if !strings.Contains(l, "capnproto.org/go/capnp/v3") || strings.Contains(l, "/zverif/") {
			continue
		}
		// e.g. capnproto.org/go/capnp/v3.BitList.At(...)
		name := l
		if i := strings.LastIndex(name, "("); i >= 0 {
			name = name[:i]
		}
		name = strings.TrimPrefix(name, "capnproto.org/go/capnp/v3")
		name = strings.TrimPrefix(name, "/")
		name = strings.TrimPrefix(name, ".")
		return name
	}
	return "?"
}

// LibFrames returns all capnp-module function names on a stack, innermost
// first, de-duplicated.
func LibFrames(stack string) []string {
	var out []string
	seen := map[string]bool{}
	for _, l := range strings.Split(stack, "\n") {
		if strings.HasPrefix(l, "\t") || l == "" {
			continue
		}
		if !strings.Contains(l, "capnproto.org/go/capnp/v3") || strings.Contains(l, "/zverif/") {
			continue
		}
		name := l
		if i := strings.LastIndex(name, "("); i >= 0 {
			name = name[:i]
		}
		name = strings.TrimPrefix(name, "capnproto.org/go/capnp/v3")
		name = strings.TrimPrefix(name, "/")
		name = strings.TrimPrefix(name, ".")
		if !seen[name] {
			seen[name] = true
			out = append(out, name)
		}
	}
	return out
}

// Hex renders bytes for replay files.
func Hex(b []byte) string { return fmt.Sprintf("%x", b) }

// SegsHex renders segments for replay files.
func SegsHex(segs [][]byte) []string {
	out := make([]string, len(segs))
	for i, s := range segs {
		out[i] = fmt.Sprintf("%x", s)
	}
	return out
}
