package walk

import (
	capnp "capnproto.org/go/capnp/v3"
)

// Blind explores an arbitrary pointer with no expectation.  It is used on
// hostile bytes: the only oracles are "no panic", "bounded work", "bytes
// handed out lie inside the segments", and the C02 monitors (depth level and
// traversal-budget conservation) which it feeds.
type Blind struct {
	Ops     int64 // library calls made
	MaxOps  int64 // budget: exploration stops (silently) when reached
	InSeg   func(b []byte) bool
	Escapes []string // APIs that handed out bytes outside the segments

	// C02 monitors
	DepthLimit int    // D of the message (walker asserts level <= D)
	MaxLevel   int    // deepest level at which a non-null dereference succeeded
	Spent      uint64 // sum of footprints of successfully dereferenced objects
	DepthViol  string // first API that dereferenced beyond D
	Derefs     int64  // successful non-null dereferences
	Errors     int64  // dereferences that returned an error
	Kinds      map[string]int64
	Msg        *capnp.Message
	// BudgetViol is set when VerifReadLimit shows a dereference was not charged.
	BudgetViol string
	ReadLimit  func() uint64
}

func NewBlind(maxOps int64) *Blind {
	return &Blind{MaxOps: maxOps, Kinds: map[string]int64{}}
}

func (b *Blind) more() bool { return b.Ops < b.MaxOps }

func (b *Blind) check(bs []byte, api string) {
	if b.InSeg != nil && len(bs) > 0 && !b.InSeg(bs) {
		b.Escapes = append(b.Escapes, api)
	}
}

// structFootprint / listFootprint: what the traversal limit must have been
// charged at least (DESIGN C02: a zero-sized list element counts one word).
func structFootprint(s capnp.Struct) uint64 {
	z := s.Size()
	return uint64(z.DataSize) + 8*uint64(z.PointerCount)
}

func listFootprint(l capnp.List, isBit bool) uint64 {
	n := uint64(l.Len())
	if isBit {
		return (n + 7) / 8
	}
	if n == 0 {
		return 0
	}
	z := l.Struct(0).Size()
	e := uint64(z.DataSize) + 8*uint64(z.PointerCount)
	if e == 0 {
		e = 8
	}
	return e * n
}

// deref wraps one pointer dereference (Struct.Ptr / PointerList.At / Root):
// before/after budget readings feed the conservation monitor.
func (b *Blind) deref(api string, level int, f func() (capnp.Ptr, error)) (capnp.Ptr, bool) {
	var before uint64
	if b.ReadLimit != nil {
		before = b.ReadLimit()
	}
	b.Ops++
	p, err := f()
	if err != nil {
		b.Errors++
		return capnp.Ptr{}, false
	}
	if !p.IsValid() {
		return p, true
	}
	var fp uint64
	kind := "cap"
	if s := p.Struct(); s.IsValid() {
		fp = structFootprint(s)
		kind = "struct"
	} else if l := p.List(); l.IsValid() && l.Len() < 0 {
		// A length outside [0, 2^29) is not a value of the encoding.
		b.Escapes = append(b.Escapes, "List.Len<0")
		return capnp.Ptr{}, false
	} else if l.IsValid() {
		kind = "list"
		isBit := false
		if l.Len() > 0 && !l.Struct(0).IsValid() {
			isBit = true
			kind = "bitlist"
		}
		fp = listFootprint(l, isBit)
	}
	b.Kinds[kind]++
	if kind == "cap" {
		return p, true
	}
	b.Derefs++
	b.Spent += fp
	if level > b.MaxLevel {
		b.MaxLevel = level
	}
	if b.DepthLimit > 0 && level > b.DepthLimit && b.DepthViol == "" {
		b.DepthViol = api
	}
	if b.ReadLimit != nil {
		after := b.ReadLimit()
		// The budget must have dropped by at least the footprint (or hit
		// zero, in which case the dereference had to fail - it did not).
		if before < fp || before-after < fp {
			if b.BudgetViol == "" {
				b.BudgetViol = api + "/" + kind
			}
		}
	}
	return p, true
}

// Ptr explores p, which was obtained at nesting level `level` (root = 1).
func (b *Blind) Ptr(p capnp.Ptr, level int) {
	if !b.more() || !p.IsValid() {
		return
	}
	b.Ops += 3
	if s := p.Struct(); s.IsValid() {
		b.Struct(s, level)
		return
	}
	if l := p.List(); l.IsValid() {
		b.List(p, l, level)
		return
	}
	i := p.Interface()
	_ = i.Capability()
	_ = i.IsValid()
}

func (b *Blind) Struct(s capnp.Struct, level int) {
	z := s.Size()
	nd := int(z.DataSize)
	offs := []int{0, 1, 7, 8, nd - 8, nd - 1, nd, nd + 8}
	for _, o := range offs {
		if o < 0 || !b.more() {
			continue
		}
		b.Ops += 5
		_ = s.Uint8(capnp.DataOffset(o))
		_ = s.Uint16(capnp.DataOffset(o &^ 1))
		_ = s.Uint32(capnp.DataOffset(o &^ 3))
		_ = s.Uint64(capnp.DataOffset(o &^ 7))
		_ = s.Bit(capnp.BitOffset(o * 8))
	}
	np := int(z.PointerCount)
	idx := sampleIdx(np, 6)
	idx = append(idx, np, np+1)
	for _, i := range idx {
		if !b.more() {
			return
		}
		b.Ops++
		_ = s.HasPtr(uint16(i))
		c, ok := b.deref("Struct.Ptr", level+1, func() (capnp.Ptr, error) { return s.Ptr(uint16(i)) })
		if ok {
			b.Ptr(c, level+1)
		}
	}
}

func sampleIdx(n, k int) []int {
	if n <= 0 {
		return nil
	}
	if n <= k {
		out := make([]int, n)
		for i := range out {
			out[i] = i
		}
		return out
	}
	return []int{0, 1, n / 2, n - 2, n - 1}
}

func (b *Blind) List(p capnp.Ptr, l capnp.List, level int) {
	n := l.Len()
	b.Ops += 6
	d := p.Data()
	b.check(d, "Ptr.Data")
	tb := p.TextBytes()
	b.check(tb, "Ptr.TextBytes")
	_ = p.Text()
	if n < 0 {
		// A negative length is itself an escape from the encoding's range
		// [0, 2^29); report through Escapes.
		b.Escapes = append(b.Escapes, "List.Len<0")
		return
	}
	idx := sampleIdx(n, 5)
	for _, i := range idx {
		if !b.more() {
			return
		}
		b.Ops += 12
		_ = capnp.BitList{List: l}.At(i)
		_ = capnp.UInt8List{List: l}.At(i)
		_ = capnp.Int8List{List: l}.At(i)
		_ = capnp.UInt16List{List: l}.At(i)
		_ = capnp.UInt32List{List: l}.At(i)
		_ = capnp.UInt64List{List: l}.At(i)
		_ = capnp.Float32List{List: l}.At(i)
		_ = capnp.Float64List{List: l}.At(i)
		st := l.Struct(i)
		if st.IsValid() {
			// projection of a list element: same nesting level as the list
			// for data access; pointers inside are one level deeper.
			b.Struct(st, level)
		}
		c, ok := b.deref("PointerList.At", level+1, func() (capnp.Ptr, error) { return capnp.PointerList{List: l}.At(i) })
		if ok {
			b.Ptr(c, level+1)
		}
		if !b.more() {
			return
		}
		b.Ops += 3
		if dd, err := (capnp.DataList{List: l}).At(i); err == nil {
			b.check(dd, "DataList.At")
		}
		if tt, err := (capnp.TextList{List: l}).BytesAt(i); err == nil {
			b.check(tt, "TextList.BytesAt")
		}
		_, _ = capnp.TextList{List: l}.At(i)
	}
}
