// Package walk holds the library-side observers: the guided walker (calls
// every applicable public accessor on a pointer and compares with the value
// the reference model says the bytes denote) and the blind walker (explores
// an arbitrary pointer with no expectation, under an operation budget).
package walk

import (
	"bytes"
	"encoding/binary"
	"fmt"
	"math"

	capnp "capnproto.org/go/capnp/v3"
	"capnproto.org/go/capnp/v3/zverif/ref"
)

// Mismatch describes the first disagreement found by the guided walker.
type Mismatch struct {
	Path string // where in the tree
	API  string // which accessor (stable; used in signatures)
	Msg  string
}

func (m *Mismatch) Error() string { return m.Path + ": " + m.API + ": " + m.Msg }

// Guided compares the library's view of p with v.
type Guided struct {
	Compared int64 // accessor results compared
	MaxScan  int   // bytes / bits / elements scanned exhaustively per object (beyond: sampled)
	// InSeg, if non-nil, is called for every []byte the library hands out;
	// it must report whether the slice lies inside the supplied segments.
	InSeg func(b []byte) bool
	// MaxLevel is the deepest nesting level visited.
	MaxLevel int
	// Budget, if > 0, stops the walk (silently) after that many comparisons
	// (value DAGs with sharing can be exponentially large as trees).
	Budget int64
}

func NewGuided() *Guided { return &Guided{MaxScan: 96} }

func mm(path, api, format string, a ...interface{}) *Mismatch {
	return &Mismatch{Path: path, API: api, Msg: fmt.Sprintf(format, a...)}
}

// Ptr walks pointer p expecting value v.
func (g *Guided) Ptr(p capnp.Ptr, v *ref.V, path string, level int) *Mismatch {
	if level > g.MaxLevel {
		g.MaxLevel = level
	}
	if g.Budget > 0 && g.Compared > g.Budget {
		return nil
	}
	g.Compared++
	switch v.Kind {
	case ref.KNull:
		if p.IsValid() {
			return mm(path, "Ptr.IsValid", "expected null pointer")
		}
		if p.Struct().IsValid() || p.List().IsValid() || p.Interface().IsValid() {
			return mm(path, "Ptr.Struct/List/Interface", "null pointer converts to a valid object")
		}
		return nil
	case ref.KCap:
		if !p.IsValid() {
			return mm(path, "Ptr.IsValid", "expected capability pointer, got null")
		}
		i := p.Interface()
		if !i.IsValid() {
			return mm(path, "Ptr.Interface", "capability pointer not an interface")
		}
		if uint32(i.Capability()) != v.Cap {
			return mm(path, "Interface.Capability", "index %d want %d", i.Capability(), v.Cap)
		}
		if p.Struct().IsValid() || p.List().IsValid() {
			return mm(path, "Ptr.Struct/List", "capability pointer converts to struct/list")
		}
		return nil
	case ref.KStruct:
		if !p.IsValid() {
			return mm(path, "Ptr.IsValid", "expected struct, got null")
		}
		s := p.Struct()
		if !s.IsValid() {
			return mm(path, "Ptr.Struct", "expected struct")
		}
		if p.List().IsValid() || p.Interface().IsValid() {
			return mm(path, "Ptr.List/Interface", "struct pointer converts to list/interface")
		}
		if p.Text() != "" || p.Data() != nil || p.TextDefault("d") != "d" || string(p.DataDefault([]byte("d"))) != "d" {
			return mm(path, "Ptr.Text/Data", "struct pointer yields text/data")
		}
		return g.Struct(s, v, path, level)
	default:
		if !p.IsValid() {
			return mm(path, "Ptr.IsValid", "expected list, got null")
		}
		l := p.List()
		if !l.IsValid() {
			return mm(path, "Ptr.List", "expected list")
		}
		if p.Struct().IsValid() || p.Interface().IsValid() {
			return mm(path, "Ptr.Struct/Interface", "list pointer converts to struct/interface")
		}
		return g.List(p, l, v, path, level)
	}
}

func expectData(data []byte, off, n int) uint64 {
	var w [8]byte
	if off < len(data) {
		end := off + n
		if end > len(data) {
			// An access that straddles the end of the data section reads as default.
			return 0
		}
		copy(w[:], data[off:end])
	}
	return binary.LittleEndian.Uint64(w[:])
}

// Struct checks every data accessor and pointer slot of s against v.
func (g *Guided) Struct(s capnp.Struct, v *ref.V, path string, level int) *Mismatch {
	sz := s.Size()
	if int(sz.DataSize) != len(v.Data) || int(sz.PointerCount) != len(v.Ptrs) {
		return mm(path, "Struct.Size", "got %v want data=%d ptrs=%d", sz, len(v.Data), len(v.Ptrs))
	}
	nd := len(v.Data)
	// offsets: exhaustive up to MaxScan bytes and around the end; sampled beyond.
	check := func(off int) *Mismatch {
		g.Compared += 4
		if got, want := uint64(s.Uint8(capnp.DataOffset(off))), expectData(v.Data, off, 1); got != want {
			return mm(path, "Struct.Uint8", "off %d got %#x want %#x", off, got, want)
		}
		if off%2 == 0 {
			if got, want := uint64(s.Uint16(capnp.DataOffset(off))), expectData(v.Data, off, 2); got != want {
				return mm(path, "Struct.Uint16", "off %d got %#x want %#x", off, got, want)
			}
		}
		if off%4 == 0 {
			if got, want := uint64(s.Uint32(capnp.DataOffset(off))), expectData(v.Data, off, 4); got != want {
				return mm(path, "Struct.Uint32", "off %d got %#x want %#x", off, got, want)
			}
		}
		if off%8 == 0 {
			if got, want := s.Uint64(capnp.DataOffset(off)), expectData(v.Data, off, 8); got != want {
				return mm(path, "Struct.Uint64", "off %d got %#x want %#x", off, got, want)
			}
		}
		for b := 0; b < 8; b++ {
			bit := off*8 + b
			want := off < nd && v.Data[off]&(1<<uint(b)) != 0
			if s.Bit(capnp.BitOffset(bit)) != want {
				return mm(path, "Struct.Bit", "bit %d got %v want %v", bit, !want, want)
			}
		}
		return nil
	}
	if nd+16 <= 2*g.MaxScan {
		for off := 0; off < nd+16; off++ {
			if m := check(off); m != nil {
				return m
			}
		}
	} else {
		for off := 0; off < g.MaxScan; off++ {
			if m := check(off); m != nil {
				return m
			}
		}
		for off := nd - g.MaxScan; off < nd+16; off++ {
			if m := check(off); m != nil {
				return m
			}
		}
		step := nd/64 | 1
		for off := g.MaxScan; off < nd-g.MaxScan; off += step {
			if m := check(off); m != nil {
				return m
			}
		}
	}
	// pointer slots, two past the end
	for i := 0; i < len(v.Ptrs)+2; i++ {
		has := s.HasPtr(uint16(i))
		wantHas := i < len(v.Ptrs) && v.Ptrs[i].Kind != ref.KNull
		g.Compared++
		if has != wantHas {
			return mm(path, "Struct.HasPtr", "slot %d got %v want %v", i, has, wantHas)
		}
		c, err := s.Ptr(uint16(i))
		if err != nil {
			return mm(path, "Struct.Ptr", "slot %d: unexpected error %v", i, err)
		}
		want := ref.Null
		if i < len(v.Ptrs) {
			want = v.Ptrs[i]
		}
		if m := g.Ptr(c, want, fmt.Sprintf("%s.p%d", path, i), level+1); m != nil {
			return m
		}
	}
	return nil
}

func (g *Guided) inSeg(b []byte, path, api string) *Mismatch {
	if g.InSeg != nil && len(b) > 0 && !g.InSeg(b) {
		return mm(path, api, "returned bytes lie outside the message segments")
	}
	return nil
}

func (g *Guided) indices(n int) []int {
	if n <= g.MaxScan {
		out := make([]int, n)
		for i := range out {
			out[i] = i
		}
		return out
	}
	out := []int{}
	for i := 0; i < g.MaxScan/2; i++ {
		out = append(out, i)
	}
	step := n/32 | 1
	for i := g.MaxScan / 2; i < n-g.MaxScan/2; i += step {
		out = append(out, i)
	}
	for i := n - g.MaxScan/2; i < n; i++ {
		out = append(out, i)
	}
	return out
}

// List checks a list through every typed wrapper that applies.
func (g *Guided) List(p capnp.Ptr, l capnp.List, v *ref.V, path string, level int) *Mismatch {
	g.Compared++
	if l.Len() != v.N {
		return mm(path, "List.Len", "got %d want %d (et=%d)", l.Len(), v.N, v.ET)
	}
	idx := g.indices(v.N)
	switch v.ET {
	case ref.ETVoid:
		for _, i := range idx[:min(len(idx), 8)] {
			st := l.Struct(i)
			g.Compared++
			if z := st.Size(); z.DataSize != 0 || z.PointerCount != 0 {
				return mm(path, "List.Struct/void", "element size %v", z)
			}
		}
		if p.Data() != nil && len(p.Data()) != 0 || p.Text() != "" {
			return mm(path, "Ptr.Data/void", "void list yields data/text")
		}
	case ref.ETBit:
		bl := capnp.BitList{List: l}
		for _, i := range idx {
			g.Compared++
			if bl.At(i) != v.Bit(i) {
				return mm(path, "BitList.At", "bit %d got %v want %v (len %d)", i, !v.Bit(i), v.Bit(i), v.N)
			}
		}
		if v.N > 0 && l.Struct(0).IsValid() {
			// bit lists never upgrade to struct lists
			return mm(path, "List.Struct/bit", "bit list element projects to a valid struct")
		}
	case ref.ETByte1:
		u8 := capnp.UInt8List{List: l}
		i8 := capnp.Int8List{List: l}
		for _, i := range idx {
			g.Compared += 2
			if u8.At(i) != v.Data[i] {
				return mm(path, "UInt8List.At", "[%d] got %d want %d", i, u8.At(i), v.Data[i])
			}
			if i8.At(i) != int8(v.Data[i]) {
				return mm(path, "Int8List.At", "[%d]", i)
			}
		}
		d := p.Data()
		g.Compared++
		if !bytes.Equal(d, v.Data) {
			return mm(path, "Ptr.Data", "got %x want %x", d, v.Data)
		}
		if m := g.inSeg(d, path, "Ptr.Data"); m != nil {
			return m
		}
		wantText, isText := "", v.N > 0 && v.Data[v.N-1] == 0
		if isText {
			wantText = string(v.Data[:v.N-1])
		}
		g.Compared += 2
		if p.Text() != wantText {
			return mm(path, "Ptr.Text", "got %q want %q", p.Text(), wantText)
		}
		tb := p.TextBytes()
		if isText {
			if string(tb) != wantText {
				return mm(path, "Ptr.TextBytes", "got %q want %q", tb, wantText)
			}
			if m := g.inSeg(tb, path, "Ptr.TextBytes"); m != nil {
				return m
			}
		} else if tb != nil {
			return mm(path, "Ptr.TextBytes", "non-text yields %q", tb)
		}
		g.Compared += 3
		if got := p.TextDefault("\x01dflt"); isText && got != wantText || !isText && got != "\x01dflt" {
			return mm(path, "Ptr.TextDefault", "got %q (text=%v want %q)", got, isText, wantText)
		}
		if got := p.TextBytesDefault("\x01dflt"); isText && string(got) != wantText || !isText && string(got) != "\x01dflt" {
			return mm(path, "Ptr.TextBytesDefault", "got %q (text=%v want %q)", got, isText, wantText)
		}
		if got := p.DataDefault([]byte{1, 2, 3}); !bytes.Equal(got, v.Data) {
			return mm(path, "Ptr.DataDefault", "got %x want %x", got, v.Data)
		}
		if m := g.oneField(l, v, idx, 1, path); m != nil {
			return m
		}
	case ref.ETByte2:
		u := capnp.UInt16List{List: l}
		s := capnp.Int16List{List: l}
		for _, i := range idx {
			g.Compared += 2
			w := binary.LittleEndian.Uint16(v.Data[i*2:])
			if u.At(i) != w || s.At(i) != int16(w) {
				return mm(path, "UInt16List.At", "[%d] got %d want %d", i, u.At(i), w)
			}
		}
		if m := g.oneField(l, v, idx, 2, path); m != nil {
			return m
		}
	case ref.ETByte4:
		u := capnp.UInt32List{List: l}
		s := capnp.Int32List{List: l}
		f := capnp.Float32List{List: l}
		for _, i := range idx {
			g.Compared += 3
			w := binary.LittleEndian.Uint32(v.Data[i*4:])
			if u.At(i) != w || s.At(i) != int32(w) {
				return mm(path, "UInt32List.At", "[%d] got %d want %d", i, u.At(i), w)
			}
			if math.Float32bits(f.At(i)) != w {
				return mm(path, "Float32List.At", "[%d]", i)
			}
		}
		if m := g.oneField(l, v, idx, 4, path); m != nil {
			return m
		}
	case ref.ETByte8:
		u := capnp.UInt64List{List: l}
		s := capnp.Int64List{List: l}
		f := capnp.Float64List{List: l}
		for _, i := range idx {
			g.Compared += 3
			w := binary.LittleEndian.Uint64(v.Data[i*8:])
			if u.At(i) != w || s.At(i) != int64(w) {
				return mm(path, "UInt64List.At", "[%d] got %d want %d", i, u.At(i), w)
			}
			if math.Float64bits(f.At(i)) != w {
				return mm(path, "Float64List.At", "[%d]", i)
			}
		}
		if m := g.oneField(l, v, idx, 8, path); m != nil {
			return m
		}
	case ref.ETPtr:
		pl := capnp.PointerList{List: l}
		for i := 0; i < v.N; i++ {
			c, err := pl.At(i)
			if err != nil {
				return mm(path, "PointerList.At", "[%d]: unexpected error %v", i, err)
			}
			if m := g.Ptr(c, v.Ptrs[i], fmt.Sprintf("%s[%d]", path, i), level+1); m != nil {
				return m
			}
			if m := g.textData(l, i, v.Ptrs[i], path, "ptrlist"); m != nil {
				return m
			}
			// List.Struct(i) over a pointer list: a struct with one pointer field
			st := l.Struct(i)
			g.Compared++
			if z := st.Size(); z.DataSize != 0 || z.PointerCount != 1 {
				return mm(path, "List.Struct/ptrlist", "element size %v", z)
			}
			c2, err := st.Ptr(0)
			if err != nil {
				return mm(path, "List.Struct.Ptr/ptrlist", "[%d]: unexpected error %v", i, err)
			}
			if m := g.Ptr(c2, v.Ptrs[i], fmt.Sprintf("%s[%d]s", path, i), level+1); m != nil {
				m.API = "List.Struct.Ptr/ptrlist>" + m.API
				return m
			}
		}
	case ref.ETComposite:
		for i := 0; i < v.N; i++ {
			st := l.Struct(i)
			if !st.IsValid() {
				return mm(path, "List.Struct", "[%d] invalid", i)
			}
			if m := g.Struct(st, v.Elems[i], fmt.Sprintf("%s[%d]", path, i), level); m != nil {
				return m
			}
		}
		// list upgrade: typed primitive wrappers read the first data field,
		// pointer wrappers the first pointer.
		for _, i := range idx {
			e := v.Elems[i]
			g.Compared += 4
			if got, want := uint64((capnp.UInt8List{List: l}).At(i)), expectData(e.Data, 0, 1); got != want {
				return mm(path, "UInt8List.At/composite", "[%d] got %#x want %#x", i, got, want)
			}
			if got, want := uint64((capnp.UInt16List{List: l}).At(i)), expectData(e.Data, 0, 2); got != want {
				return mm(path, "UInt16List.At/composite", "[%d] got %#x want %#x", i, got, want)
			}
			if got, want := uint64((capnp.UInt32List{List: l}).At(i)), expectData(e.Data, 0, 4); got != want {
				return mm(path, "UInt32List.At/composite", "[%d] got %#x want %#x", i, got, want)
			}
			if got, want := (capnp.UInt64List{List: l}).At(i), expectData(e.Data, 0, 8); got != want {
				return mm(path, "UInt64List.At/composite", "[%d] got %#x want %#x", i, got, want)
			}
			if v.ElemPW >= 1 {
				cls := "composite-data0"
				if v.ElemDW > 0 {
					cls = "composite-with-data"
				}
				c, err := capnp.PointerList{List: l}.At(i)
				if err != nil {
					return mm(path, "PointerList.At/"+cls, "[%d]: unexpected error %v", i, err)
				}
				if m := g.Ptr(c, e.Ptrs[0], fmt.Sprintf("%s[%d]^", path, i), level+1); m != nil {
					m.API = "PointerList.At/" + cls + ">" + m.API
					return m
				}
				if m := g.textData(l, i, e.Ptrs[0], path, cls); m != nil {
					return m
				}
			}
		}
		if p.Data() != nil && len(p.Data()) > 0 || p.Text() != "" {
			return mm(path, "Ptr.Data/composite", "composite list yields data/text")
		}
	}
	return nil
}

// oneField checks List.Struct(i) over a primitive list: a struct whose sole
// field is the element.
func (g *Guided) oneField(l capnp.List, v *ref.V, idx []int, sz int, path string) *Mismatch {
	for _, i := range idx[:min(len(idx), 16)] {
		st := l.Struct(i)
		g.Compared += 2
		if z := st.Size(); int(z.DataSize) != sz || z.PointerCount != 0 {
			return mm(path, "List.Struct/primitive", "element size %v want %d bytes", z, sz)
		}
		var got uint64
		switch sz {
		case 1:
			got = uint64(st.Uint8(0))
		case 2:
			got = uint64(st.Uint16(0))
		case 4:
			got = uint64(st.Uint32(0))
		default:
			got = st.Uint64(0)
		}
		if want := expectData(v.Data[i*sz:(i+1)*sz], 0, sz); got != want {
			return mm(path, "List.Struct.Uint/primitive", "[%d] got %#x want %#x", i, got, want)
		}
		// A field that is not wholly inside the sz-byte data section does not
		// exist in this struct: it reads as zero (never as the bytes of the
		// neighbouring elements); narrower fields inside it read its bytes.
		elem := v.Data[i*sz : (i+1)*sz]
		for _, w := range []int{1, 2, 4, 8} {
			for off := 0; off < 16; off += w {
				var got, want uint64
				switch w {
				case 1:
					got = uint64(st.Uint8(capnp.DataOffset(off)))
				case 2:
					got = uint64(st.Uint16(capnp.DataOffset(off)))
				case 4:
					got = uint64(st.Uint32(capnp.DataOffset(off)))
				default:
					got = st.Uint64(capnp.DataOffset(off))
				}
				if off+w <= sz {
					want = expectData(elem, off, w)
				}
				g.Compared++
				if got != want {
					return mm(path, "List.Struct.Uint/primitive-field-extent", "[%d] %d-byte field at byte %d of a %d-byte element: got %#x want %#x", i, w, off, sz, got, want)
				}
			}
		}
		for bit := 0; bit < 72; bit++ {
			want := bit < sz*8 && elem[bit/8]&(1<<uint(bit%8)) != 0
			g.Compared++
			if st.Bit(capnp.BitOffset(bit)) != want {
				return mm(path, "List.Struct.Bit/primitive-field-extent", "[%d] bit %d of a %d-byte element: got %v want %v", i, bit, sz, !want, want)
			}
		}
	}
	return nil
}

// textData checks TextList / DataList access to element i whose value is c.
func (g *Guided) textData(l capnp.List, i int, c *ref.V, path, cls string) *Mismatch {
	isBytes := c.Kind == ref.KList && c.ET == ref.ETByte1
	if !(isBytes || c.Kind == ref.KNull) {
		return nil
	}
	g.Compared += 3
	d, err := capnp.DataList{List: l}.At(i)
	if err != nil {
		return mm(path, "DataList.At/"+cls, "[%d]: unexpected error %v", i, err)
	}
	var wantD []byte
	wantT := ""
	if isBytes {
		wantD = c.Data
		if c.N > 0 && c.Data[c.N-1] == 0 {
			wantT = string(c.Data[:c.N-1])
		}
	}
	if !bytes.Equal(d, wantD) {
		return mm(path, "DataList.At/"+cls, "[%d] got %x want %x", i, d, wantD)
	}
	if m := g.inSeg(d, path, "DataList.At"); m != nil {
		return m
	}
	t, err := capnp.TextList{List: l}.At(i)
	if err != nil {
		return mm(path, "TextList.At/"+cls, "[%d]: unexpected error %v", i, err)
	}
	if t != wantT {
		return mm(path, "TextList.At/"+cls, "[%d] got %q want %q", i, t, wantT)
	}
	tb, err := capnp.TextList{List: l}.BytesAt(i)
	if err != nil {
		return mm(path, "TextList.BytesAt/"+cls, "[%d]: unexpected error %v", i, err)
	}
	if string(tb) != wantT {
		return mm(path, "TextList.BytesAt/"+cls, "[%d] got %q want %q", i, tb, wantT)
	}
	if m := g.inSeg(tb, path, "TextList.BytesAt"); m != nil {
		return m
	}
	return nil
}

func min(a, b int) int {
	if a < b {
		return a
	}
	return b
}
