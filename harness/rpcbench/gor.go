package rpcbench

import (
	"runtime"
	"strings"
	"sync"

	"capnproto.org/go/capnp/v3/zverif/common"
)

var (
	stackMu  sync.Mutex
	stackBuf = make([]byte, 256<<10)
)

// parked wait reasons: only another goroutine (or a message) can end them.
var parkedStates = map[string]bool{
	"chan receive": true, "chan send": true, "select": true, "select (no cases)": true,
	"chan receive (nil chan)": true, "chan send (nil chan)": true,
	"semacquire": true, "sync.Mutex.Lock": true, "sync.RWMutex.Lock": true, "sync.RWMutex.RLock": true,
	"sync.Cond.Wait": true, "sync.WaitGroup.Wait": true,
}

func isSystem(g *common.GoroutineInfo) bool {
	for _, f := range g.Frames {
		if strings.HasPrefix(f, "runtime.gcBgMarkWorker") || strings.HasPrefix(f, "runtime.bgsweep") ||
			strings.HasPrefix(f, "runtime.bgscavenge") || strings.HasPrefix(f, "runtime.forcegchelper") ||
			strings.HasPrefix(f, "runtime.runfinq") || strings.HasPrefix(f, "os/signal.") ||
			strings.HasPrefix(f, "runtime.ensureSigM") || strings.HasPrefix(f, "runtime.ReadTrace") ||
			strings.HasPrefix(f, "runtime.runFinalizers") || strings.HasPrefix(f, "runtime.createfing") {
			return true
		}
	}
	return false
}

// AllParked reports whether every goroutine other than the caller (and the
// runtime's own) is parked in a state that only another goroutine can end.
// exempt lists function-name substrings of harness goroutines that may be in
// any state (e.g. the deadlock watch sampler, which sleeps).
// It is the logical "nothing is running inside the library" test used to
// decide quiescent points: no wall-clock value is involved.
func AllParked(exempt ...string) (bool, string) {
	stackMu.Lock()
	var dump string
	for {
		n := runtime.Stack(stackBuf, true)
		if n < len(stackBuf) {
			dump = string(stackBuf[:n])
			break
		}
		stackBuf = make([]byte, 2*len(stackBuf))
	}
	stackMu.Unlock()
	gs := common.ParseGoroutines(dump)
	for i := range gs {
		g := &gs[i]
		if g.State == "running" {
			self := false
			for _, f := range g.Frames {
				if strings.Contains(f, "rpcbench.AllParked") {
					self = true
				}
			}
			if self {
				continue
			}
			return false, g.Raw
		}
		if isSystem(g) {
			continue
		}
		if parkedStates[g.State] {
			continue
		}
		ex := false
		for _, f := range g.Frames {
			for _, e := range exempt {
				if strings.Contains(f, e) {
					ex = true
				}
			}
		}
		if ex {
			continue
		}
		return false, g.Raw
	}
	return true, ""
}
