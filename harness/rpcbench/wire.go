package rpcbench

import (
	"fmt"
	"strings"

	"capnproto.org/go/capnp/v3"
	rpccp "capnproto.org/go/capnp/v3/std/capnp/rpc"
)

// Content layout shared by every call's parameters and results in the
// bench:  data: uid @0 (u64), stream @8 (u32), seq @12 (u32), aux @16 (u64);
// pointers 0..3: an interface pointer, a nested struct whose pointer 0 is an
// interface pointer (transform of length 2), or null.
var ContentSize = capnp.ObjectSize{DataSize: 24, PointerCount: 4}

const NumPtr = 4

// Interface / method used by all bench calls.
const (
	BenchInterfaceID uint64 = 0xa7317bd7216570aa
	BenchMethodID    uint16 = 9
)

var BenchMethod = capnp.Method{InterfaceID: BenchInterfaceID, MethodID: BenchMethodID}

// WDesc is a copied CapDescriptor.
type WDesc struct {
	Kind string // none senderHosted senderPromise receiverHosted receiverAnswer thirdPartyHosted
	ID   uint32
}

// WSlot describes one pointer field of the content struct.
type WSlot struct {
	Kind   string // "null" "cap" "nested" "other"
	CapIdx int    // index into the payload cap table (cap / nested), -1 otherwise
}

// WPayload is a copied Payload.
type WPayload struct {
	Valid   bool
	Kind    string // "struct" "iface" "null" "other"
	CapIdx  int    // for Kind=="iface"
	UID     uint64
	Stream  uint32
	Seq     uint32
	Aux     uint64
	Slots   []WSlot
	Caps    []WDesc
}

// WTarget is a copied MessageTarget.
type WTarget struct {
	Kind      string // importedCap promisedAnswer
	Cap       uint32
	QID       uint32
	Transform []int // pointer field numbers; -1 = noop
}

// Path returns the transform without noops, as a string key.
func (t *WTarget) Path() string {
	var sb strings.Builder
	for _, f := range t.Transform {
		if f >= 0 {
			fmt.Fprintf(&sb, "/%d", f)
		}
	}
	return sb.String()
}

// PathOps returns the transform without noops.
func (t *WTarget) PathOps() []int {
	var out []int
	for _, f := range t.Transform {
		if f >= 0 {
			out = append(out, f)
		}
	}
	return out
}

// RefKey identifies the reference a call was addressed to.
func (t *WTarget) RefKey() string {
	if t == nil {
		return "?"
	}
	if t.Kind == "importedCap" {
		return fmt.Sprintf("cap%d", t.Cap)
	}
	return fmt.Sprintf("ans%d%s", t.QID, t.Path())
}

// WireMsg is a deep copy of one rpc.capnp Message.
type WireMsg struct {
	Which             string
	ID                uint32 // questionId / answerId / release id / embargo id
	Target            *WTarget
	Iface             uint64
	Method            uint16
	SendResultsTo     string
	Payload           *WPayload
	RetKind           string // results exception canceled resultsSentElsewhere takeFromOtherQuestion acceptFromThirdParty
	ReleaseParamCaps  bool
	ReleaseResultCaps bool
	ExcReason         string
	ExcType           int
	RefCount          uint32
	DisKind           string // senderLoopback receiverLoopback accept provide
	Inner             string // which of an unimplemented's inner message
	DecodeErr         string
}

func (m *WireMsg) Short() string {
	if m == nil {
		return "<nil>"
	}
	switch m.Which {
	case "call":
		return fmt.Sprintf("call%d>%s", m.ID, m.Target.RefKey())
	case "return":
		return fmt.Sprintf("ret%d:%s", m.ID, m.RetKind)
	case "finish":
		return fmt.Sprintf("fin%d:%v", m.ID, m.ReleaseResultCaps)
	case "release":
		return fmt.Sprintf("rel%d:%d", m.ID, m.RefCount)
	case "disembargo":
		return fmt.Sprintf("dis%d:%s", m.ID, m.DisKind)
	case "bootstrap":
		return fmt.Sprintf("boot%d", m.ID)
	}
	return m.Which
}

func (p *WPayload) String() string {
	if p == nil || !p.Valid {
		return "{}"
	}
	var sb strings.Builder
	if p.Kind == "iface" {
		fmt.Fprintf(&sb, "{iface@%d", p.CapIdx)
	} else {
		fmt.Fprintf(&sb, "{%s uid=%x s%d#%d aux=%d", p.Kind, p.UID, p.Stream, p.Seq, p.Aux)
		for i, s := range p.Slots {
			if s.Kind != "null" {
				fmt.Fprintf(&sb, " p%d=%s@%d", i, s.Kind, s.CapIdx)
			}
		}
	}
	sb.WriteString(" caps=[")
	for i, d := range p.Caps {
		if i > 0 {
			sb.WriteString(",")
		}
		fmt.Fprintf(&sb, "%s:%d", d.Kind, d.ID)
	}
	sb.WriteString("]}")
	return sb.String()
}

func (m *WireMsg) String() string {
	if m == nil {
		return "<nil>"
	}
	switch m.Which {
	case "bootstrap":
		return fmt.Sprintf("Bootstrap(q%d)", m.ID)
	case "call":
		t := "?"
		if m.Target != nil {
			if m.Target.Kind == "importedCap" {
				t = fmt.Sprintf("cap%d", m.Target.Cap)
			} else {
				t = fmt.Sprintf("ans%d%v", m.Target.QID, m.Target.Transform)
			}
		}
		return fmt.Sprintf("Call(q%d -> %s %s)", m.ID, t, m.Payload.String())
	case "return":
		switch m.RetKind {
		case "results":
			return fmt.Sprintf("Return(a%d results %s rpc=%v)", m.ID, m.Payload.String(), m.ReleaseParamCaps)
		case "exception":
			return fmt.Sprintf("Return(a%d exception %q rpc=%v)", m.ID, m.ExcReason, m.ReleaseParamCaps)
		}
		return fmt.Sprintf("Return(a%d %s rpc=%v)", m.ID, m.RetKind, m.ReleaseParamCaps)
	case "finish":
		return fmt.Sprintf("Finish(q%d rrc=%v)", m.ID, m.ReleaseResultCaps)
	case "release":
		return fmt.Sprintf("Release(id%d n=%d)", m.ID, m.RefCount)
	case "disembargo":
		t := "?"
		if m.Target != nil {
			t = m.Target.RefKey()
		}
		return fmt.Sprintf("Disembargo(%s %d -> %s)", m.DisKind, m.ID, t)
	case "abort":
		return fmt.Sprintf("Abort(%q)", m.ExcReason)
	case "unimplemented":
		return fmt.Sprintf("Unimplemented(%s)", m.Inner)
	}
	return m.Which + "(" + m.DecodeErr + ")"
}

func decodeTarget(t rpccp.MessageTarget) *WTarget {
	out := &WTarget{}
	switch t.Which() {
	case rpccp.MessageTarget_Which_importedCap:
		out.Kind = "importedCap"
		out.Cap = t.ImportedCap()
	case rpccp.MessageTarget_Which_promisedAnswer:
		out.Kind = "promisedAnswer"
		pa, err := t.PromisedAnswer()
		if err != nil {
			out.Kind = "bad"
			return out
		}
		out.QID = pa.QuestionId()
		ops, err := pa.Transform()
		if err == nil {
			for i := 0; i < ops.Len(); i++ {
				op := ops.At(i)
				switch op.Which() {
				case rpccp.PromisedAnswer_Op_Which_noop:
					out.Transform = append(out.Transform, -1)
				case rpccp.PromisedAnswer_Op_Which_getPointerField:
					out.Transform = append(out.Transform, int(op.GetPointerField()))
				default:
					out.Transform = append(out.Transform, -2)
				}
			}
		}
	default:
		out.Kind = "unknown"
	}
	return out
}

func decodeDesc(d rpccp.CapDescriptor) WDesc {
	switch d.Which() {
	case rpccp.CapDescriptor_Which_none:
		return WDesc{Kind: "none"}
	case rpccp.CapDescriptor_Which_senderHosted:
		return WDesc{Kind: "senderHosted", ID: d.SenderHosted()}
	case rpccp.CapDescriptor_Which_senderPromise:
		return WDesc{Kind: "senderPromise", ID: d.SenderPromise()}
	case rpccp.CapDescriptor_Which_receiverHosted:
		return WDesc{Kind: "receiverHosted", ID: d.ReceiverHosted()}
	case rpccp.CapDescriptor_Which_receiverAnswer:
		return WDesc{Kind: "receiverAnswer"}
	case rpccp.CapDescriptor_Which_thirdPartyHosted:
		return WDesc{Kind: "thirdPartyHosted"}
	}
	return WDesc{Kind: "unknown"}
}

func slotOf(p capnp.Ptr) WSlot {
	if !p.IsValid() {
		return WSlot{Kind: "null", CapIdx: -1}
	}
	if i := p.Interface(); i.IsValid() {
		return WSlot{Kind: "cap", CapIdx: int(i.Capability())}
	}
	if s := p.Struct(); s.IsValid() {
		q, err := s.Ptr(0)
		if err == nil {
			if i := q.Interface(); i.IsValid() {
				return WSlot{Kind: "nested", CapIdx: int(i.Capability())}
			}
		}
		return WSlot{Kind: "other", CapIdx: -1}
	}
	return WSlot{Kind: "other", CapIdx: -1}
}

func decodePayload(p rpccp.Payload) *WPayload {
	out := &WPayload{CapIdx: -1}
	if !p.IsValid() {
		return out
	}
	out.Valid = true
	c, err := p.Content()
	if err != nil {
		out.Kind = "other"
	} else if !c.IsValid() {
		out.Kind = "null"
	} else if i := c.Interface(); i.IsValid() {
		out.Kind = "iface"
		out.CapIdx = int(i.Capability())
	} else if s := c.Struct(); s.IsValid() {
		out.Kind = "struct"
		out.UID = s.Uint64(0)
		out.Stream = s.Uint32(8)
		out.Seq = s.Uint32(12)
		out.Aux = s.Uint64(16)
		n := int(s.Size().PointerCount)
		if n > 8 {
			n = 8
		}
		for k := 0; k < n; k++ {
			q, err := s.Ptr(uint16(k))
			if err != nil {
				out.Slots = append(out.Slots, WSlot{Kind: "other", CapIdx: -1})
				continue
			}
			out.Slots = append(out.Slots, slotOf(q))
		}
	} else {
		out.Kind = "other"
	}
	if p.HasCapTable() {
		ct, err := p.CapTable()
		if err == nil {
			for i := 0; i < ct.Len(); i++ {
				out.Caps = append(out.Caps, decodeDesc(ct.At(i)))
			}
		}
	}
	return out
}

// SlotDesc returns the descriptor a content slot refers to (nil if none).
func (p *WPayload) SlotDesc(path []int) *WDesc {
	if p == nil || !p.Valid {
		return nil
	}
	if len(path) == 0 {
		if p.Kind == "iface" && p.CapIdx >= 0 && p.CapIdx < len(p.Caps) {
			return &p.Caps[p.CapIdx]
		}
		return nil
	}
	if p.Kind != "struct" || path[0] < 0 || path[0] >= len(p.Slots) {
		return nil
	}
	s := p.Slots[path[0]]
	switch {
	case len(path) == 1 && s.Kind == "cap":
	case len(path) == 2 && path[1] == 0 && s.Kind == "nested":
	default:
		return nil
	}
	if s.CapIdx < 0 || s.CapIdx >= len(p.Caps) {
		return nil
	}
	return &p.Caps[s.CapIdx]
}

// SlotCapIdx returns the cap-table index the pointer at path refers to (-1 if
// the path does not lead to an interface pointer).
func (p *WPayload) SlotCapIdx(path []int) int {
	d := p.SlotDesc(path)
	if d == nil {
		return -1
	}
	for i := range p.Caps {
		if &p.Caps[i] == d {
			return i
		}
	}
	return -1
}

// Decode deep-copies an rpc.capnp message into a Go struct.
func Decode(m rpccp.Message) *WireMsg {
	out := &WireMsg{}
	fail := func(err error) *WireMsg {
		out.DecodeErr = err.Error()
		return out
	}
	switch m.Which() {
	case rpccp.Message_Which_unimplemented:
		out.Which = "unimplemented"
		in, err := m.Unimplemented()
		if err != nil {
			return fail(err)
		}
		out.Inner = in.Which().String()
	case rpccp.Message_Which_abort:
		out.Which = "abort"
		e, err := m.Abort()
		if err != nil {
			return fail(err)
		}
		out.ExcReason, _ = e.Reason()
		out.ExcType = int(e.Type())
	case rpccp.Message_Which_bootstrap:
		out.Which = "bootstrap"
		b, err := m.Bootstrap()
		if err != nil {
			return fail(err)
		}
		out.ID = b.QuestionId()
	case rpccp.Message_Which_call:
		out.Which = "call"
		c, err := m.Call()
		if err != nil {
			return fail(err)
		}
		out.ID = c.QuestionId()
		out.Iface = c.InterfaceId()
		out.Method = c.MethodId()
		out.SendResultsTo = c.SendResultsTo().Which().String()
		t, err := c.Target()
		if err != nil {
			return fail(err)
		}
		out.Target = decodeTarget(t)
		p, err := c.Params()
		if err != nil {
			return fail(err)
		}
		out.Payload = decodePayload(p)
	case rpccp.Message_Which_return:
		out.Which = "return"
		r, err := m.Return()
		if err != nil {
			return fail(err)
		}
		out.ID = r.AnswerId()
		out.ReleaseParamCaps = r.ReleaseParamCaps()
		switch r.Which() {
		case rpccp.Return_Which_results:
			out.RetKind = "results"
			p, err := r.Results()
			if err != nil {
				return fail(err)
			}
			out.Payload = decodePayload(p)
		case rpccp.Return_Which_exception:
			out.RetKind = "exception"
			e, err := r.Exception()
			if err != nil {
				return fail(err)
			}
			out.ExcReason, _ = e.Reason()
			out.ExcType = int(e.Type())
		case rpccp.Return_Which_canceled:
			out.RetKind = "canceled"
		case rpccp.Return_Which_resultsSentElsewhere:
			out.RetKind = "resultsSentElsewhere"
		case rpccp.Return_Which_takeFromOtherQuestion:
			out.RetKind = "takeFromOtherQuestion"
		default:
			out.RetKind = r.Which().String()
		}
	case rpccp.Message_Which_finish:
		out.Which = "finish"
		f, err := m.Finish()
		if err != nil {
			return fail(err)
		}
		out.ID = f.QuestionId()
		out.ReleaseResultCaps = f.ReleaseResultCaps()
	case rpccp.Message_Which_release:
		out.Which = "release"
		r, err := m.Release()
		if err != nil {
			return fail(err)
		}
		out.ID = r.Id()
		out.RefCount = r.ReferenceCount()
	case rpccp.Message_Which_disembargo:
		out.Which = "disembargo"
		d, err := m.Disembargo()
		if err != nil {
			return fail(err)
		}
		t, err := d.Target()
		if err != nil {
			return fail(err)
		}
		out.Target = decodeTarget(t)
		switch d.Context().Which() {
		case rpccp.Disembargo_context_Which_senderLoopback:
			out.DisKind = "senderLoopback"
			out.ID = d.Context().SenderLoopback()
		case rpccp.Disembargo_context_Which_receiverLoopback:
			out.DisKind = "receiverLoopback"
			out.ID = d.Context().ReceiverLoopback()
		default:
			out.DisKind = d.Context().Which().String()
		}
	default:
		out.Which = m.Which().String()
	}
	return out
}

// ---------------------------------------------------------------------------
// Builders used by the scripted peer (public std/capnp/rpc bindings only).

// Content describes the bench content struct to build.
type Content struct {
	UID    uint64
	Stream uint32
	Seq    uint32
	Aux    uint64
	// Slots[i] = index into Caps of the capability placed at pointer i
	// (-1 = null).  Nested[i] wraps the interface in a one-pointer struct.
	Slots  [NumPtr]int
	Nested [NumPtr]bool
	Caps   []WDesc
}

func NewContent(uid uint64) Content {
	return Content{UID: uid, Slots: [NumPtr]int{-1, -1, -1, -1}}
}

// FillStruct writes the data part and interface pointers (cap indices are
// cap-table indices) of a bench content struct.
func FillStruct(s capnp.Struct, c *Content) error {
	s.SetUint64(0, c.UID)
	s.SetUint32(8, c.Stream)
	s.SetUint32(12, c.Seq)
	s.SetUint64(16, c.Aux)
	for i := 0; i < NumPtr; i++ {
		if c.Slots[i] < 0 {
			continue
		}
		ip := capnp.NewInterface(s.Segment(), capnp.CapabilityID(c.Slots[i])).ToPtr()
		if c.Nested[i] {
			ns, err := capnp.NewStruct(s.Segment(), capnp.ObjectSize{PointerCount: 1})
			if err != nil {
				return err
			}
			if err := ns.SetPtr(0, ip); err != nil {
				return err
			}
			ip = ns.ToPtr()
		}
		if err := s.SetPtr(uint16(i), ip); err != nil {
			return err
		}
	}
	return nil
}

// FillPayload builds content + cap table into an rpc Payload.
func FillPayload(p rpccp.Payload, c *Content) error {
	s, err := capnp.NewStruct(p.Segment(), ContentSize)
	if err != nil {
		return err
	}
	if err := FillStruct(s, c); err != nil {
		return err
	}
	if err := p.SetContent(s.ToPtr()); err != nil {
		return err
	}
	return FillCapTable(p, c.Caps)
}

func FillCapTable(p rpccp.Payload, caps []WDesc) error {
	if len(caps) == 0 {
		return nil
	}
	ct, err := p.NewCapTable(int32(len(caps)))
	if err != nil {
		return err
	}
	for i, d := range caps {
		switch d.Kind {
		case "none":
			ct.At(i).SetNone()
		case "senderHosted":
			ct.At(i).SetSenderHosted(d.ID)
		case "senderPromise":
			ct.At(i).SetSenderPromise(d.ID)
		case "receiverHosted":
			ct.At(i).SetReceiverHosted(d.ID)
		default:
			return fmt.Errorf("cannot build descriptor kind %q", d.Kind)
		}
	}
	return nil
}

// SetTarget fills a MessageTarget from a WTarget.
func SetTarget(t rpccp.MessageTarget, w *WTarget) error {
	if w.Kind == "importedCap" {
		t.SetImportedCap(w.Cap)
		return nil
	}
	pa, err := t.NewPromisedAnswer()
	if err != nil {
		return err
	}
	pa.SetQuestionId(w.QID)
	ops, err := pa.NewTransform(int32(len(w.Transform)))
	if err != nil {
		return err
	}
	for i, f := range w.Transform {
		if f < 0 {
			ops.At(i).SetNoop()
		} else {
			ops.At(i).SetGetPointerField(uint16(f))
		}
	}
	return nil
}
