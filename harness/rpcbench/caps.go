package rpcbench

import (
	"context"
	"fmt"
	"sync"

	"capnproto.org/go/capnp/v3"
	"capnproto.org/go/capnp/v3/server"
)

// ResultMask turns a call uid into the uid its results carry.
const ResultMask uint64 = 0x5a5a000000000000

// Behaviours of an instrumented implementation for one call.
const (
	BehReturnNow   = iota // return results without Ack (receive loop blocked meanwhile)
	BehAckReturn          // Ack, then return results
	BehAckBlock           // Ack, block until released by the script, return results
	BehExcNow             // return an exception immediately
	BehAckBlockExc        // Ack, block until released, return an exception
	NumBehaviours
)

// ResCap tells the implementation which capability to place in its results.
type ResCap struct {
	Slot   int  // pointer field of the results struct (-1: cap table entry only)
	Nested bool // wrap in a one-pointer struct (transform of length 2)
	// Source: either a harness handle that stays live until the plan was
	// consumed (a new reference is added per cap-table entry), or the
	// capability found at pointer ArgSlot of the arguments (H == nil).
	H       *Handle
	ArgSlot int
	Extra   int // additional cap-table entries for the same capability (0-4)
	Label   string
}

// CallPlan is looked up by call uid when an instrumented capability
// observes a call.
type CallPlan struct {
	UID        uint64
	Behaviour  int
	ObserveCtx bool // while blocked, give up with ctx.Err() when the context is canceled
	ResCaps    []ResCap
	TakeArgs   []int // argument pointer slots whose capability the implementation keeps (AddRef) as harness handle
	// FailAfterResults: (returning behaviours only) the implementation
	// allocates and fills its results, capabilities included, and then
	// returns an error.  Whoever owns the results (the Conn's answer for a
	// call that came over the wire) must still release those capabilities.
	FailAfterResults bool
	Consumed   bool  // set (under World.mu) once the implementation no longer needs the plan's handles
	release    chan struct{}
	relOnce    sync.Once
}

// Fails reports whether the implementation will answer with an error
// (unless it is canceled first, which is an error too).
func (p *CallPlan) Fails() bool {
	return p.Behaviour == BehExcNow || p.Behaviour == BehAckBlockExc || p.FailAfterResults
}

// Release unblocks a blocked implementation (idempotent).
func (p *CallPlan) Release() {
	p.relOnce.Do(func() { close(p.release) })
}

// CallObs is what an instrumented capability observed for one call.
type CallObs struct {
	UID      uint64
	Cap      int
	Stream   uint32
	Seq      uint32
	StartT   int64
	Blocked  bool  // currently blocked waiting for release
	Done     bool  // implementation returned
	RetT     int64 // stamp of impl-ret
	Err      string
	Starts   int // number of times this uid was observed (must be 1)
	Canceled bool
	ArgCaps  int // number of capabilities in the arguments' cap table
	// ResultsFilled: the implementation had placed its results (with the
	// plan's capabilities) when it returned, also when it returned an error
	// (CallPlan.FailAfterResults).
	ResultsFilled bool
}

// Handle is a capability reference held by the harness itself.
type Handle struct {
	ID    int
	C     *capnp.Client
	Label string
	// provenance, used by the monitors to map the handle to an import/export
	Local   *LocalCap // reference to a capability hosted on this side (nil if unknown)
	Plan    uint64    // non-zero: owned by the plan of this call uid (released once consumed)
	FromUID uint64    // taken from the params (FromArgs) or results of this call
	FromArgs bool
	CapIdx  int // cap-table index in that payload
	Who     string
	AcqT    int64 // stamp after the reference was obtained
	RelT0   int64 // stamp before Release was called (0 = still held)
	RelT1   int64 // stamp after Release returned
}

// World is the registry of instrumented capabilities, plans, observations
// and harness-held references of one case.
type World struct {
	Log *Log

	mu      sync.Mutex
	caps    []*LocalCap
	plans   map[uint64]*CallPlan
	obs     map[uint64]*CallObs
	handles []*Handle
	// Faults are invariant breaches noticed by the instrumented capabilities
	// themselves (shutdown twice, call after shutdown, duplicate delivery).
	Faults []string
}

func NewWorld(log *Log) *World {
	return &World{Log: log, plans: map[uint64]*CallPlan{}, obs: map[uint64]*CallObs{}}
}

func (w *World) fault(f string) {
	w.mu.Lock()
	w.Faults = append(w.Faults, f)
	w.mu.Unlock()
}

func (w *World) TakeFaults() []string {
	w.mu.Lock()
	defer w.mu.Unlock()
	f := w.Faults
	w.Faults = nil
	return f
}

// Plan registers the plan for a call uid (before the call is issued).
func (w *World) Plan(p *CallPlan) *CallPlan {
	p.release = make(chan struct{})
	w.mu.Lock()
	w.plans[p.UID] = p
	w.mu.Unlock()
	return p
}

func (w *World) PlanOf(uid uint64) *CallPlan {
	w.mu.Lock()
	defer w.mu.Unlock()
	return w.plans[uid]
}

// Obs returns a copy of the observation for uid (nil if never observed).
func (w *World) Obs(uid uint64) *CallObs {
	w.mu.Lock()
	defer w.mu.Unlock()
	o := w.obs[uid]
	if o == nil {
		return nil
	}
	c := *o
	return &c
}

// BlockedUIDs lists calls currently blocked in an implementation.
func (w *World) BlockedUIDs() []uint64 {
	w.mu.Lock()
	defer w.mu.Unlock()
	var out []uint64
	for uid, o := range w.obs {
		if o.Blocked && !o.Done {
			out = append(out, uid)
		}
	}
	return out
}

// RunningImpls counts implementations that started and have not returned.
func (w *World) RunningImpls() int {
	w.mu.Lock()
	defer w.mu.Unlock()
	n := 0
	for _, o := range w.obs {
		if !o.Done {
			n++
		}
	}
	return n
}

// ReleaseAll unblocks every plan.
func (w *World) ReleaseAll() {
	w.mu.Lock()
	ps := make([]*CallPlan, 0, len(w.plans))
	for _, p := range w.plans {
		ps = append(ps, p)
	}
	w.mu.Unlock()
	for _, p := range ps {
		p.Release()
	}
}

// AddHandle records a reference the harness now owns.
func (w *World) AddHandle(h *Handle) *Handle {
	h.AcqT = w.Log.Stamp()
	w.mu.Lock()
	h.ID = len(w.handles)
	w.handles = append(w.handles, h)
	w.mu.Unlock()
	return h
}

// ReleaseHandle releases a harness-held reference (idempotent).
func (w *World) ReleaseHandle(h *Handle) {
	w.mu.Lock()
	if h.RelT0 != 0 {
		w.mu.Unlock()
		return
	}
	h.RelT0 = w.Log.Stamp()
	w.mu.Unlock()
	h.C.Release()
	t := w.Log.Stamp()
	w.mu.Lock()
	h.RelT1 = t
	w.mu.Unlock()
}

// Handles returns a copy of the handle table.
func (w *World) Handles() []Handle {
	w.mu.Lock()
	defer w.mu.Unlock()
	out := make([]Handle, len(w.handles))
	for i, h := range w.handles {
		out[i] = *h
	}
	return out
}

// LiveHandles returns the handles not yet released.
func (w *World) LiveHandles() []*Handle {
	w.mu.Lock()
	defer w.mu.Unlock()
	var out []*Handle
	for _, h := range w.handles {
		if h.RelT0 == 0 {
			out = append(out, h)
		}
	}
	return out
}

// ---------------------------------------------------------------------------

// LocalCap is an instrumented capability built with server.New.
type LocalCap struct {
	N   int
	Who string // name of the vat hosting it
	W   *World

	mu         sync.Mutex
	Started    []uint64 // call uids in the order the implementation observed them
	shutdowns  int
	ShutT      int64
	srv        *server.Server
}

type capShutdowner struct{ lc *LocalCap }

func (s capShutdowner) Shutdown() {
	lc := s.lc
	t := lc.W.Log.Add(&Event{Kind: EvShutdown, Who: lc.Who, Cap: lc.N})
	lc.mu.Lock()
	lc.shutdowns++
	n := lc.shutdowns
	if n == 1 {
		lc.ShutT = t
	}
	lc.mu.Unlock()
	if n > 1 {
		lc.W.fault(fmt.Sprintf("shutdown-twice cap=%d", lc.N))
	}
}

// Shutdowns returns how often Shutdown was observed and the stamp of the
// first one.
func (lc *LocalCap) Shutdowns() (int, int64) {
	lc.mu.Lock()
	defer lc.mu.Unlock()
	return lc.shutdowns, lc.ShutT
}

// StartedCopy returns the uids observed so far, in order.
func (lc *LocalCap) StartedCopy() []uint64 {
	lc.mu.Lock()
	defer lc.mu.Unlock()
	return append([]uint64(nil), lc.Started...)
}

// NewLocalCap creates an instrumented capability; the returned client is the
// first reference (owned by the caller, not recorded as a Handle).
func (w *World) NewLocalCap(who string) (*LocalCap, *capnp.Client) {
	lc := &LocalCap{Who: who, W: w}
	w.mu.Lock()
	lc.N = len(w.caps)
	w.caps = append(w.caps, lc)
	w.mu.Unlock()
	lc.srv = server.New([]server.Method{{Method: BenchMethod, Impl: lc.impl}}, lc, capShutdowner{lc},
		&server.Policy{MaxConcurrentCalls: 256, AnswerQueueSize: 256})
	return lc, capnp.NewClient(lc.srv)
}

func (w *World) Caps() []*LocalCap {
	w.mu.Lock()
	defer w.mu.Unlock()
	return append([]*LocalCap(nil), w.caps...)
}

func (lc *LocalCap) impl(ctx context.Context, call *server.Call) error {
	w := lc.W
	args := call.Args()
	uid := args.Uint64(0)
	stream, seq := args.Uint32(8), args.Uint32(12)
	t := w.Log.Add(&Event{Kind: EvImplStart, Who: lc.Who, Cap: lc.N, UID: uid, Note: fmt.Sprintf("s%d#%d", stream, seq)})
	lc.mu.Lock()
	lc.Started = append(lc.Started, uid)
	shut := lc.shutdowns
	lc.mu.Unlock()
	if shut > 0 {
		w.fault(fmt.Sprintf("call-after-shutdown cap=%d uid=%x", lc.N, uid))
	}
	w.mu.Lock()
	o := w.obs[uid]
	if o == nil {
		o = &CallObs{UID: uid, Cap: lc.N, Stream: stream, Seq: seq, StartT: t}
		w.obs[uid] = o
	}
	o.Starts++
	dup := o.Starts > 1
	if m := args.Message(); m != nil {
		o.ArgCaps = len(m.CapTable)
	}
	plan := w.plans[uid]
	w.mu.Unlock()
	if dup {
		w.fault(fmt.Sprintf("call-delivered-twice cap=%d uid=%x", lc.N, uid))
	}
	if plan == nil {
		plan = &CallPlan{UID: uid, Behaviour: BehAckReturn, release: make(chan struct{})}
	}
	// keep argument capabilities the script asked for
	for _, slot := range plan.TakeArgs {
		p, err := args.Ptr(uint16(slot))
		if err != nil {
			continue
		}
		var ci capnp.Interface
		if i := p.Interface(); i.IsValid() {
			ci = i
		} else if s := p.Struct(); s.IsValid() {
			q, _ := s.Ptr(0)
			ci = q.Interface()
		}
		if !ci.IsValid() {
			continue
		}
		c := ci.Client()
		if c == nil {
			continue
		}
		w.AddHandle(&Handle{C: c.AddRef(), Label: fmt.Sprintf("arg%d-of-%x", slot, uid), FromUID: uid, FromArgs: true,
			CapIdx: int(ci.Capability()), Who: lc.Who})
	}
	canceled := false
	switch plan.Behaviour {
	case BehAckReturn, BehAckBlock, BehAckBlockExc:
		call.Ack()
	}
	if plan.Behaviour == BehAckBlock || plan.Behaviour == BehAckBlockExc {
		w.mu.Lock()
		o.Blocked = true
		w.mu.Unlock()
		w.Log.Add(&Event{Kind: EvNote, Who: lc.Who, Cap: lc.N, UID: uid, Note: "impl-blocked"})
		if plan.ObserveCtx {
			select {
			case <-plan.release:
			case <-ctx.Done():
				canceled = true
			}
		} else {
			<-plan.release
		}
		w.mu.Lock()
		o.Blocked = false
		w.mu.Unlock()
	}
	var err error
	filled := false
	switch {
	case canceled:
		err = fmt.Errorf("impl-canceled-%x", uid)
	case plan.Behaviour == BehExcNow || plan.Behaviour == BehAckBlockExc:
		err = fmt.Errorf("boom-%x", uid)
	default:
		err = lc.fillResults(call, plan, uid, stream, seq)
		filled = err == nil
		if filled && plan.FailAfterResults {
			// the error message contains "boom-<uid>" like the plain exceptions
			err = fmt.Errorf("boom-%x-after-results", uid)
		}
	}
	es := ""
	if err != nil {
		es = err.Error()
	}
	rt := w.Log.Add(&Event{Kind: EvImplRet, Who: lc.Who, Cap: lc.N, UID: uid, Note: es})
	w.mu.Lock()
	plan.Consumed = true
	o.Done = true
	o.RetT = rt
	o.Err = es
	o.Canceled = canceled
	o.ResultsFilled = filled
	w.mu.Unlock()
	return err
}

func (lc *LocalCap) fillResults(call *server.Call, plan *CallPlan, uid uint64, stream, seq uint32) error {
	res, err := call.AllocResults(ContentSize)
	if err != nil {
		return fmt.Errorf("alloc-failed-%x: %v", uid, err)
	}
	res.SetUint64(0, uid^ResultMask)
	res.SetUint32(8, stream)
	res.SetUint32(12, seq)
	res.SetUint64(16, uint64(lc.N))
	args := call.Args()
	msg := res.Message()
	for _, rc := range plan.ResCaps {
		var src *capnp.Client
		switch {
		case rc.H != nil:
			src = rc.H.C
		case rc.ArgSlot >= 0:
			p, err := args.Ptr(uint16(rc.ArgSlot))
			if err == nil {
				if i := p.Interface(); i.IsValid() {
					src = i.Client()
				} else if s := p.Struct(); s.IsValid() {
					q, _ := s.Ptr(0)
					src = q.Interface().Client()
				}
			}
		}
		if src == nil {
			continue
		}
		first := msg.AddCap(src.AddRef())
		for k := 0; k < rc.Extra; k++ {
			msg.AddCap(src.AddRef())
		}
		if rc.Slot < 0 {
			continue
		}
		ip := capnp.NewInterface(res.Segment(), first).ToPtr()
		if rc.Nested {
			ns, err := capnp.NewStruct(res.Segment(), capnp.ObjectSize{PointerCount: 1})
			if err != nil {
				return err
			}
			if err := ns.SetPtr(0, ip); err != nil {
				return err
			}
			ip = ns.ToPtr()
		}
		if err := res.SetPtr(uint16(rc.Slot), ip); err != nil {
			return err
		}
	}
	return nil
}


// PlanConsumed reports whether the plan's handles are no longer needed.
func (w *World) PlanConsumed(uid uint64) bool {
	w.mu.Lock()
	defer w.mu.Unlock()
	p := w.plans[uid]
	return p == nil || p.Consumed
}

// MarkConsumed marks a plan whose call will never be delivered.
func (w *World) MarkConsumed(uid uint64) {
	w.mu.Lock()
	if p := w.plans[uid]; p != nil {
		p.Consumed = true
	}
	w.mu.Unlock()
}
