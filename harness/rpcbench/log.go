// Package rpcbench is the RPC test bench shared by the rpcconf driver
// (properties C06, C07): an in-memory message-level tap transport that
// deep-copies every message into a Go struct and stamps it in one
// mutex-protected logical-clock event log, instrumented capabilities, a
// seeded yield policy for the verifhook sites and a goroutine-state based
// quiescence detector.
//
// Go 1.16 language level (no generics).
package rpcbench

import (
	"fmt"
	"hash/fnv"
	"strings"
	"sync"
	"sync/atomic"
)

// Event kinds.
const (
	EvSendBegin = "send-begin" // a message is about to be put on the wire (stamped before)
	EvSendEnd   = "send-end"   // the send returned
	EvRecv      = "recv"       // RecvMessage is about to return this message to its caller
	EvRecvWait  = "recv-wait"  // RecvMessage was entered (previous message fully dispatched)
	EvImplStart = "impl-start" // an instrumented capability observed a call
	EvImplRet   = "impl-ret"   // the implementation is returning (outcome recorded)
	EvShutdown  = "cap-shutdown"
	EvAPI       = "api" // application-level operation (begin/end noted in Note)
	EvNote      = "note"
)

// Event is one entry of the logical-clock log.
type Event struct {
	T    int64    // logical stamp, strictly increasing
	Kind string   // Ev*
	Who  string   // endpoint / conn name ("C", "P", "A", "B")
	Msg  *WireMsg // for send/recv events
	Cap  int      // capability number (impl/shutdown events)
	UID  uint64   // call uid (impl / api events)
	Note string
}

func (e *Event) String() string {
	var sb strings.Builder
	fmt.Fprintf(&sb, "%d %s %s", e.T, e.Who, e.Kind)
	if e.Msg != nil {
		sb.WriteString(" ")
		sb.WriteString(e.Msg.String())
	}
	if e.Kind == EvImplStart || e.Kind == EvImplRet || e.Kind == EvShutdown {
		fmt.Fprintf(&sb, " cap=%d", e.Cap)
	}
	if e.UID != 0 {
		fmt.Fprintf(&sb, " uid=%x", e.UID)
	}
	if e.Note != "" {
		sb.WriteString(" ")
		sb.WriteString(e.Note)
	}
	return sb.String()
}

// Log is the single event log of a case.  Everything that is compared by an
// oracle is stamped here, at the API / wire boundary.
type Log struct {
	mu     sync.Mutex
	clock  int64
	events []*Event
	// Progress is bumped on every event (used by the deadlock watch).
	Progress int64
	// Sinks are called with the log mutex held, in stamp order.
	sinks []func(*Event)
}

func NewLog() *Log { return &Log{} }

// AddSink registers an online monitor; it is invoked under the log mutex
// (so in stamp order) and must not call back into the log.
func (l *Log) AddSink(f func(*Event)) {
	l.mu.Lock()
	l.sinks = append(l.sinks, f)
	l.mu.Unlock()
}

// Add stamps and appends an event; it returns the stamp.
func (l *Log) Add(e *Event) int64 {
	l.mu.Lock()
	l.clock++
	e.T = l.clock
	l.events = append(l.events, e)
	for _, s := range l.sinks {
		s(e)
	}
	t := e.T
	l.mu.Unlock()
	atomic.AddInt64(&l.Progress, 1)
	return t
}

// Stamp returns a fresh stamp without recording an event.
func (l *Log) Stamp() int64 {
	l.mu.Lock()
	l.clock++
	t := l.clock
	l.mu.Unlock()
	return t
}

// Now returns the current clock value (no increment).
func (l *Log) Now() int64 {
	l.mu.Lock()
	defer l.mu.Unlock()
	return l.clock
}

// Len returns the number of events so far.
func (l *Log) Len() int {
	l.mu.Lock()
	defer l.mu.Unlock()
	return len(l.events)
}

// Snapshot returns a copy of the event slice (events themselves are
// immutable once added).
func (l *Log) Snapshot() []*Event {
	l.mu.Lock()
	defer l.mu.Unlock()
	out := make([]*Event, len(l.events))
	copy(out, l.events)
	return out
}

// Tail renders the last n events (witness for violation details).
func (l *Log) Tail(n int) string {
	evs := l.Snapshot()
	if len(evs) > n {
		evs = evs[len(evs)-n:]
	}
	var sb strings.Builder
	for _, e := range evs {
		sb.WriteString(e.String())
		sb.WriteString("\n")
	}
	return sb.String()
}

// Dump renders the whole log as strings (replay input).
func (l *Log) Dump(max int) []string {
	evs := l.Snapshot()
	if len(evs) > max && max > 60 {
		// keep the beginning and the end
		evs = append(append([]*Event(nil), evs[:40]...), evs[len(evs)-(max-40):]...)
	}
	out := make([]string, len(evs))
	for i, e := range evs {
		out[i] = e.String()
	}
	return out
}

// OrderHash hashes the order of wire and implementation events (message
// kinds, direction, ids) — the "distinct event order" evidence measure.
func (l *Log) OrderHash() uint64 {
	h := fnv.New64a()
	for _, e := range l.Snapshot() {
		switch e.Kind {
		case EvSendBegin, EvRecv:
			fmt.Fprintf(h, "%s|%s|%s;", e.Who, e.Kind, e.Msg.Short())
		case EvImplStart, EvImplRet, EvShutdown:
			fmt.Fprintf(h, "%s|%s|%d|%x;", e.Who, e.Kind, e.Cap, e.UID)
		}
	}
	return h.Sum64()
}
