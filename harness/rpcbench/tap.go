package rpcbench

import (
	"context"
	"errors"
	"sync"
	"sync/atomic"

	"capnproto.org/go/capnp/v3"
	rpccp "capnproto.org/go/capnp/v3/std/capnp/rpc"
)

// wireItem is one message in flight: the serialized bytes (so the two sides
// never share memory) and its decoded copy.
type wireItem struct {
	data []byte
	rec  *WireMsg
}

// queue is an unbounded FIFO with close.
type queue struct {
	mu     sync.Mutex
	items  []wireItem
	closed bool
	wake   chan struct{} // closed and replaced whenever state changes
}

func newQueue() *queue { return &queue{wake: make(chan struct{})} }

func (q *queue) signal() {
	close(q.wake)
	q.wake = make(chan struct{})
}

func (q *queue) put(it wireItem) bool {
	q.mu.Lock()
	defer q.mu.Unlock()
	if q.closed {
		return false
	}
	q.items = append(q.items, it)
	q.signal()
	return true
}

func (q *queue) close() {
	q.mu.Lock()
	if !q.closed {
		q.closed = true
		q.signal()
	}
	q.mu.Unlock()
}

// Tap is one endpoint of an in-memory message pipe.  It implements
// rpc.Transport.  Every message crossing it is deep-copied into a WireMsg and
// stamped in the Log: EvSendBegin before the message is handed to the other
// side, EvSendEnd after, EvRecv just before RecvMessage returns it, and
// EvRecvWait when RecvMessage is entered (which means the owner finished
// dispatching the previous message).
type Tap struct {
	Name string // owner of this endpoint
	log  *Log
	in   *queue
	out  *queue
	pol  *YieldPolicy

	// receiver state (atomics so the quiescence detector can poll them)
	recvWaiting int32 // 1 while the owner is blocked in RecvMessage
	recvCount   int64 // messages handed to the owner
	sentCount   int64
	closedFlag  int32
	// liveMsgs counts NewMessage results not yet released (Transport contract).
	liveMsgs int64

	faultMu sync.Mutex
	faults  []*SendFault
}

// NewTapPair creates two connected endpoints.
func NewTapPair(log *Log, nameA, nameB string, pol *YieldPolicy) (*Tap, *Tap) {
	q1, q2 := newQueue(), newQueue()
	return &Tap{Name: nameA, log: log, in: q1, out: q2, pol: pol},
		&Tap{Name: nameB, log: log, in: q2, out: q1, pol: pol}
}

var errTapClosed = errors.New("tap transport: closed")
var errInjected = errors.New("tap transport: injected send failure (nothing written)")

// SendFault makes the send of one selected message fail cleanly.
type SendFault struct {
	Which string        // message kind, e.g. "finish"
	ID    uint32        // question / answer id the message carries
	Gate  chan struct{} // if non-nil the failing send blocks until it is closed
	Hit   int32         // set when the send reached the fault (atomic)
	Done  int32         // set when the send returned its error (atomic)
}

// ArmFault registers a one-shot fault for messages sent from this endpoint.
func (t *Tap) ArmFault(f *SendFault) {
	t.faultMu.Lock()
	t.faults = append(t.faults, f)
	t.faultMu.Unlock()
}

func (t *Tap) matchFault(m *WireMsg) *SendFault {
	t.faultMu.Lock()
	defer t.faultMu.Unlock()
	for i, f := range t.faults {
		if f.Which == m.Which && f.ID == m.ID {
			t.faults = append(t.faults[:i], t.faults[i+1:]...)
			return f
		}
	}
	return nil
}

func (t *Tap) NewMessage(ctx context.Context) (rpccp.Message, func() error, capnp.ReleaseFunc, error) {
	if atomic.LoadInt32(&t.closedFlag) != 0 {
		return rpccp.Message{}, nil, nil, errTapClosed
	}
	msg, seg, err := capnp.NewMessage(capnp.MultiSegment(nil))
	if err != nil {
		return rpccp.Message{}, nil, nil, err
	}
	rmsg, err := rpccp.NewRootMessage(seg)
	if err != nil {
		return rpccp.Message{}, nil, nil, err
	}
	atomic.AddInt64(&t.liveMsgs, 1)
	sent := false
	released := false
	send := func() error {
		if sent || released {
			panic("tap: send called twice or after release")
		}
		sent = true
		if msg.CapTable != nil {
			panic("tap: send with non-nil CapTable")
		}
		if err := ctx.Err(); err != nil {
			return err
		}
		data, err := msg.Marshal()
		if err != nil {
			return err
		}
		rec := Decode(rmsg)
		if f := t.matchFault(rec); f != nil {
			// seeded transport fault: the write fails cleanly (nothing
			// reaches the wire, the transport stays usable), optionally
			// after having been held up at a gate the script controls
			t.log.Add(&Event{Kind: EvNote, Who: t.Name, Note: "send-held " + rec.String()})
			atomic.StoreInt32(&f.Hit, 1)
			if f.Gate != nil {
				<-f.Gate
			}
			t.log.Add(&Event{Kind: EvNote, Who: t.Name, Note: "send-failed " + rec.String()})
			atomic.StoreInt32(&f.Done, 1)
			return errInjected
		}
		t.log.Add(&Event{Kind: EvSendBegin, Who: t.Name, Msg: rec})
		if t.pol != nil {
			t.pol.Wire(t.Name)
		}
		ok := t.out.put(wireItem{data: data, rec: rec})
		atomic.AddInt64(&t.sentCount, 1)
		if !ok {
			t.log.Add(&Event{Kind: EvSendEnd, Who: t.Name, Msg: rec, Note: "peer-closed"})
			return errTapClosed
		}
		t.log.Add(&Event{Kind: EvSendEnd, Who: t.Name, Msg: rec})
		return nil
	}
	release := func() {
		if released {
			return
		}
		released = true
		if !sent && msg.CapTable != nil {
			panic("tap: outgoing message released without clearing CapTable")
		}
		atomic.AddInt64(&t.liveMsgs, -1)
		msg.Reset(nil)
	}
	return rmsg, send, release, nil
}

func (t *Tap) RecvMessage(ctx context.Context) (rpccp.Message, capnp.ReleaseFunc, error) {
	t.log.Add(&Event{Kind: EvRecvWait, Who: t.Name})
	for {
		t.in.mu.Lock()
		if len(t.in.items) > 0 {
			it := t.in.items[0]
			t.in.items = t.in.items[1:]
			atomic.StoreInt32(&t.recvWaiting, 0)
			t.in.mu.Unlock()
			msg, err := capnp.Unmarshal(it.data)
			if err != nil {
				return rpccp.Message{}, nil, err
			}
			rmsg, err := rpccp.ReadRootMessage(msg)
			if err != nil {
				return rpccp.Message{}, nil, err
			}
			atomic.AddInt64(&t.recvCount, 1)
			t.log.Add(&Event{Kind: EvRecv, Who: t.Name, Msg: it.rec})
			released := false
			return rmsg, func() {
				if released {
					return
				}
				released = true
				if msg.CapTable != nil {
					panic("tap: received message released without clearing CapTable")
				}
			}, nil
		}
		if t.in.closed {
			atomic.StoreInt32(&t.recvWaiting, 0)
			t.in.mu.Unlock()
			return rpccp.Message{}, nil, errTapClosed
		}
		wake := t.in.wake
		atomic.StoreInt32(&t.recvWaiting, 1)
		t.in.mu.Unlock()
		select {
		case <-wake:
		case <-ctx.Done():
			atomic.StoreInt32(&t.recvWaiting, 0)
			return rpccp.Message{}, nil, ctx.Err()
		}
	}
}

// Close closes both directions: the peer's receives fail after it drained
// what was already sent, our own receive fails immediately.
func (t *Tap) Close() error {
	if !atomic.CompareAndSwapInt32(&t.closedFlag, 0, 1) {
		return nil
	}
	t.log.Add(&Event{Kind: EvNote, Who: t.Name, Note: "transport-close"})
	t.out.close()
	t.in.close()
	return nil
}

// Idle reports whether the owner of this endpoint is blocked in RecvMessage
// with nothing queued for it.
func (t *Tap) Idle() bool {
	t.in.mu.Lock()
	defer t.in.mu.Unlock()
	return len(t.in.items) == 0 && atomic.LoadInt32(&t.recvWaiting) == 1
}

// InQueueLen returns the number of messages waiting to be received.
func (t *Tap) InQueueLen() int {
	t.in.mu.Lock()
	defer t.in.mu.Unlock()
	return len(t.in.items)
}

func (t *Tap) Closed() bool   { return atomic.LoadInt32(&t.closedFlag) != 0 }
func (t *Tap) InClosed() bool { t.in.mu.Lock(); defer t.in.mu.Unlock(); return t.in.closed }
func (t *Tap) LiveMsgs() int64 { return atomic.LoadInt64(&t.liveMsgs) }

// ---------------------------------------------------------------------------
// Raw access for the scripted peer (it does not use rpc.Conn).

// PeerSend builds and sends one message from this endpoint.
func (t *Tap) PeerSend(build func(rpccp.Message) error) (*WireMsg, error) {
	m, send, release, err := t.NewMessage(context.Background())
	if err != nil {
		return nil, err
	}
	defer release()
	if err := build(m); err != nil {
		return nil, err
	}
	rec := Decode(m)
	if err := send(); err != nil {
		return rec, err
	}
	return rec, nil
}

// PeerTryRecv returns the next queued message for this endpoint without
// blocking (nil if none).  closed reports that the other side closed and
// nothing is left.
func (t *Tap) PeerTryRecv() (rec *WireMsg, closed bool) {
	t.in.mu.Lock()
	defer t.in.mu.Unlock()
	if len(t.in.items) > 0 {
		it := t.in.items[0]
		t.in.items = t.in.items[1:]
		atomic.AddInt64(&t.recvCount, 1)
		// stamped under the queue lock so the order of EvRecv events is the
		// queue order
		t.log.Add(&Event{Kind: EvRecv, Who: t.Name, Msg: it.rec})
		return it.rec, false
	}
	return nil, t.in.closed
}

// PeerWake returns a channel closed at the next change of the inbound queue.
func (t *Tap) PeerWake() <-chan struct{} {
	t.in.mu.Lock()
	defer t.in.mu.Unlock()
	return t.in.wake
}
