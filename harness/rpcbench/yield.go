package rpcbench

import (
	"runtime"
	"sync"
	"sync/atomic"
	"time"

	"capnproto.org/go/capnp/v3/internal/verifhook"
)

// YieldPolicy perturbs the schedule at the verifhook sites and at the wire
// boundary.  Its decision is a pure function of (sub-seed, site, per-site
// counter): no-op / Gosched x1-3 / sleep 20-300us, with a few "hot" sites
// per run chosen by the seed so that different runs stretch different
// windows.  It never decides a verdict.
type YieldPolicy struct {
	seed   uint64
	hot    map[int]bool
	level  int // 0 = off, 1 = light, 2 = heavy
	mu     sync.Mutex
	counts map[int]int64
	hist   [1024]int64 // site histogram (atomic)
	wireN  int64

	holdSite int
	holdCh   chan struct{}
	held     int64
}

// Held returns how many goroutines were parked at a Hold gate so far.
func (p *YieldPolicy) Held() int64 { return atomic.LoadInt64(&p.held) }

func mix(x uint64) uint64 {
	x += 0x9e3779b97f4a7c15
	x = (x ^ (x >> 30)) * 0xbf58476d1ce4e5b9
	x = (x ^ (x >> 27)) * 0x94d049bb133111eb
	return x ^ (x >> 31)
}

// NewYieldPolicy builds a policy.  sites is the list of known site numbers
// from which hot sites are drawn.
func NewYieldPolicy(seed uint64, level int, sites []int) *YieldPolicy {
	p := &YieldPolicy{seed: seed, level: level, hot: map[int]bool{}, counts: map[int]int64{}}
	if len(sites) > 0 && level > 0 {
		n := 1 + int(mix(seed)%3)
		for i := 0; i < n; i++ {
			p.hot[sites[int(mix(seed+uint64(i)*77)%uint64(len(sites)))]] = true
		}
	}
	return p
}

// Install makes the policy current for verifhook.Yield.
func (p *YieldPolicy) Install() { verifhook.Set(p.Site) }

// Uninstall removes any policy.
func Uninstall() { verifhook.Set(nil) }

func (p *YieldPolicy) decide(site int, n int64) {
	if p.level == 0 {
		return
	}
	r := mix(p.seed ^ uint64(site)*0x100000001b3 ^ uint64(n)*0x9e3779b1)
	hot := p.hot[site]
	d := r % 100
	switch {
	case hot && d < 50:
		time.Sleep(time.Duration(20+r>>8%280) * time.Microsecond)
	case hot || d < 25*uint64(p.level):
		k := 1 + int((r>>16)%3)
		for i := 0; i < k; i++ {
			runtime.Gosched()
		}
	case d >= 97 && p.level >= 2:
		time.Sleep(time.Duration(20+r>>8%100) * time.Microsecond)
	}
}

// Hold arms a one-shot gate: the next goroutine that reaches the given site
// parks there until the returned function is called (a long pre-emption at a
// point where the goroutine holds no lock).  Calling the function also
// disarms a gate nobody reached.
func (p *YieldPolicy) Hold(site int) (release func()) {
	ch := make(chan struct{})
	p.mu.Lock()
	p.holdSite, p.holdCh = site, ch
	p.mu.Unlock()
	var once sync.Once
	return func() {
		once.Do(func() {
			p.mu.Lock()
			if p.holdCh == ch {
				p.holdCh = nil
			}
			p.mu.Unlock()
			close(ch)
		})
	}
}

// Site is the verifhook callback.
func (p *YieldPolicy) Site(site int) {
	if site >= 0 && site < len(p.hist) {
		atomic.AddInt64(&p.hist[site], 1)
	}
	p.mu.Lock()
	if p.holdCh != nil && p.holdSite == site {
		ch := p.holdCh
		p.holdCh = nil
		p.mu.Unlock()
		atomic.AddInt64(&p.held, 1)
		<-ch
	} else {
		p.mu.Unlock()
	}
	p.mu.Lock()
	p.counts[site]++
	n := p.counts[site]
	p.mu.Unlock()
	p.decide(site, n)
}

// Wire is called by the tap between stamping a send and enqueuing it.
func (p *YieldPolicy) Wire(who string) {
	n := atomic.AddInt64(&p.wireN, 1)
	site := 1000
	if who != "" {
		site += int(who[0])
	}
	p.decide(site, n)
}

// Histogram returns the number of hits per verifhook site.
func (p *YieldPolicy) Histogram() map[int]int64 {
	out := map[int]int64{}
	for i := range p.hist {
		if n := atomic.LoadInt64(&p.hist[i]); n > 0 {
			out[i] = n
		}
	}
	return out
}
