#!/usr/bin/env python3
"""Record, in seeded/<name>/meta.json, that a seeded defect missed at first is caught after a strengthening.

  ./seed_note.py C15-6 C15 "note text" sig1 [sig2 ...]
Keeps the first verdict under checks[<prop>].first_verdict.
"""
import json, sys
name, prop, note = sys.argv[1:4]
sigs = sys.argv[4:]
p = "/verif/seeded/%s/meta.json" % name
m = json.load(open(p))
vc = m.setdefault("verified_by_coordinator", {})
c = vc.setdefault("checks", {}).setdefault(prop, {})
if "first_verdict" not in c:
    c["first_verdict"] = c.get("verdict", "n/a")
c["verdict"] = "MISSED at first, caught after strengthening" if c["first_verdict"] == "MISSED" else "caught"
if sigs:
    c["signatures"] = sigs
vc["note"] = note
json.dump(m, open(p, "w"), indent=1)
print(name, c["verdict"])
