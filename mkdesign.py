#!/usr/bin/env python3
"""Assemble DESIGN.md = design/BASE.md (the design written before the code, with an amendments
header) + design/ASBUILT.md (coordinator's account of what was built, deviations, false alarms)
+ the per-driver NOTES.md files + tables generated from known_findings.json, mutants/ and seeded/.
Single source of truth for each part; re-run after any of them changes:  python3 mkdesign.py
"""
import glob, json, os, re
V = os.path.dirname(os.path.abspath(__file__))

def read(p):
    with open(os.path.join(V, p)) as f:
        return f.read()

def demote(md, by=2):
    out = []
    fence = False
    for line in md.splitlines():
        if line.startswith("```"):
            fence = not fence
        if not fence and line.startswith("#"):
            line = "#" * by + line
        out.append(line)
    return "\n".join(out)

parts = [read("design/BASE.md").rstrip(), "", read("design/ASBUILT.md").rstrip(), ""]

parts.append("---------------------------------------------------------------------------------------------------\n")
parts.append("## 9. Drivers as built (per-driver notes, written by whoever built the driver)\n")
order = [("enc", "C01 C02 C03 C04 C05 C16 C17 C18"), ("rpcconf", "C06 C07"), ("rpcfault", "C08 C09"),
         ("caps", "C10 C11 C12"), ("stream", "C13 C14"), ("codegen", "C15"), ("reflect", "C19 C20")]
for drv, props in order:
    p = "harness/cmd/%s/NOTES.md" % drv
    if os.path.exists(os.path.join(V, p)):
        parts.append("### 9.%d driver `%s` (%s)\n" % (order.index((drv, props)) + 1, drv, props))
        parts.append(demote(read(p), 3))
        parts.append("")

parts.append("---------------------------------------------------------------------------------------------------\n")
parts.append("## 10. Genuine defects found (generated from known_findings.json)\n")
kf = json.load(open(os.path.join(V, "known_findings.json")))["findings"]
parts.append("| property | status | commit | signature (what the check prints) | what |")
parts.append("|---|---|---|---|---|")
for f in sorted(kf, key=lambda f: (f["property"], f.get("status", ""))):
    sig = f.get("signature") or f.get("signature_re") or ""
    what = f.get("what", "").replace("|", "\\|").replace("\n", " ")
    parts.append("| %s | %s | %s | `%s` | %s |" % (f["property"], f.get("status"), f.get("commit", ""), sig.replace("|", "\\|"), what[:400]))
parts.append("")

parts.append("---------------------------------------------------------------------------------------------------\n")
parts.append("## 11. Which checks catch which changes\n")
parts.append("### 11.1 Seeded defects written by independent sub-agents (seeded/<id>/; they saw only the property text)\n")
parts.append("| id | property | what it breaks / needs to manifest | confirmed (tests pass, demo fails with / passes without) | our checks (quick tier) |")
parts.append("|---|---|---|---|---|")
for d in sorted(glob.glob(os.path.join(V, "seeded", "*"))):
    mp = os.path.join(d, "meta.json")
    if not os.path.exists(mp):
        continue
    m = json.load(open(mp))
    vc = m.get("verified_by_coordinator", {})
    checks = "; ".join("%s: %s%s" % (p, r.get("verdict"), (" (" + ", ".join(r.get("signatures", [])[:3]) + ")") if r.get("signatures") else "")
                       for p, r in sorted(vc.get("checks", {}).items()))
    note = vc.get("note", "")
    what = (m.get("what_it_breaks", "") + " — needs: " + m.get("needs_to_manifest", "")).replace("|", "\\|").replace("\n", " ")
    parts.append("| %s | %s | %s | %s | %s %s |" % (os.path.basename(d), m.get("property"), what[:500], "yes" if vc.get("confirmed") else "no", checks.replace("|", "\\|"), note))
parts.append("")
parts.append("### 11.2 Hand-written mutants (mutants/*.patch; `./selftest [--tests] [ID…]` re-runs them)\n")
byp = {}
for p in sorted(glob.glob(os.path.join(V, "mutants", "*.patch"))):
    b = os.path.basename(p)[:-6]
    byp.setdefault(b.split("-")[0], []).append(b)
for pid in sorted(byp):
    parts.append("* **%s** (%d): %s" % (pid, len(byp[pid]), ", ".join("`%s`" % x for x in byp[pid])))
parts.append("")
for lg in sorted(glob.glob(os.path.join(V, "mutants", "selftest-*.log"))):
    parts.append("Last recorded self-test run `%s`:\n" % os.path.relpath(lg, V))
    parts.append("```")
    for line in open(lg):
        line = line.rstrip()
        if line and not line.startswith("WARNING"):
            parts.append(line[:160])
    parts.append("```\n")

open(os.path.join(V, "DESIGN.md"), "w").write("\n".join(parts) + "\n")
print("DESIGN.md written: %d lines" % ("\n".join(parts).count("\n") + 1))
