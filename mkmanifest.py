#!/usr/bin/env python3
"""Regenerate MANIFEST.json from props/*.json (one check per configured property)."""
import glob, json, os, subprocess
V = os.path.dirname(os.path.abspath(__file__))
props = [json.loads(l) for l in open(os.path.join(V, "properties.jsonl"))]
ids = [p["id"] for p in props]
na_reasons = {}
p = os.path.join(V, "not_applicable.json")
if os.path.exists(p):
    na_reasons = json.load(open(p))
checks, na = [], []
for pid in ids:
    f = os.path.join(V, "props", pid + ".json")
    if not os.path.exists(f):
        na.append(dict(property_id=pid, reason=na_reasons.get(pid, "no check built yet in this round; not claimed")))
        continue
    c = json.load(open(f))
    chk = dict(
        property_id=pid,
        quick_cmd="./check %s --tier quick" % pid,
        thorough_cmd="./check %s --tier thorough" % pid,
        evidence_file="evidence/%s.json" % pid,
        replay_cmd_template="./check %s --replay {path}" % pid,
        engine=c["driver"],
        level_claimed=dict(category=c.get("level", "exploration"), text=c.get("level_text", ""), design_ref=c.get("design_ref", "DESIGN.md §3 " + pid)),
        level_note=c.get("level_note", ""),
        technique=c.get("technique", ""),
    )
    checks.append(chk)
try:
    commits = subprocess.check_output(["git", "-C", "/repo", "log", "--format=%H %s"], text=True).splitlines()
    hook_commits = [l.split()[0] for l in commits if l.split(" ", 1)[1].startswith("verif hook")]
except Exception:
    hook_commits = []
engines = {}
for c in checks:
    engines.setdefault(c["engine"], []).append(c["property_id"])
m = dict(
    version=1,
    setup_cmd="./check --setup",
    hooks=dict(guard="verif", enable="go build -tags verif (done by ./check in a scratch copy of /repo)",
               baseline_off_cmd="cd /repo && GOFLAGS=-mod=mod GOPROXY=off GOSUMDB=off GOTOOLCHAIN=local go test -vet=off -count=1 -timeout 25m ./...",
               source_commits=hook_commits, add_only=True),
    engines=[dict(name=k, path="harness/cmd/" + k, serves_properties=v, kind_free_text="Go driver run as child processes by ./check; monitors + oracles in-process") for k, v in sorted(engines.items())],
    checks=checks,
    notes="Runtime monitoring: every check rebuilds from /repo's working tree (rsync to a scratch dir), runs the real code under generated/hostile/stress workloads with oracles observing executions. See DESIGN.md.",
    not_applicable=na,
)
json.dump(m, open(os.path.join(V, "MANIFEST.json"), "w"), indent=1)
print("MANIFEST.json: %d checks, %d not claimed" % (len(checks), len(na)))
